(** Proofs about the RP ID check (RpId/RpIdModel.v): soundness for every provider, the label-boundary
    form for providers that reject empty labels (the default one does: C10), registrability under the
    shipped list, and the converse on well-formed input. *)
From Coq Require Import ZArith ZifyBool ZifyNat ZifyN Lia.
From PK Require Import Lib.Bytes Lib.Check Psl.PslSpec Psl.PslModel Psl.PslWalk Psl.PslFacts Psl.PslShipped Psl.PslData
  RpId.RpIdModel RpId.RpIdCheck.
Open Scope N_scope.

(** [r] is [h] or what follows one of [h]'s dots *)
Definition boundary (h r : bytes) : Prop := h = r \/ exists p, h = p ++ DOT :: r.
(** what [is_suffix_at_label_boundary] guarantees by itself: additionally a string suffix that itself
    starts with a dot (left for the registrable-domain check to refuse) *)
Definition boundary3 (h r : bytes) : Prop :=
  h = r \/ (exists p, h = p ++ DOT :: r) \/ (starts_with_dot r = true /\ exists p, h = p ++ r).

Definition localhost_exception (allow : bool) (o : origin) (r : bytes) : Prop :=
  allow = true /\ is_web o = true /\ r = LOCALHOST /\ host_of o = Some LOCALHOST.

(** *** strings *)
Lemma strip_suffix_spec s suf p : strip_suffix s suf = Some p -> s = p ++ suf.
Proof.
  unfold strip_suffix. destruct (Nat.leb_spec (length suf) (length s)) as [Hle|Hgt]; cbn [andb]; [|discriminate].
  destruct (beq (skipn (length s - length suf) s) suf) eqn:E; [|discriminate].
  intros H. injection H as <-. apply beq_eq in E. rewrite <- E at 2. symmetry. apply firstn_skipn.
Qed.

Lemma strip_suffix_app p suf : strip_suffix (p ++ suf) suf = Some p.
Proof.
  unfold strip_suffix. rewrite app_length.
  replace (length suf <=? length p + length suf)%nat with true by (symmetry; apply Nat.leb_le; lia).
  replace (length p + length suf - length suf)%nat with (length p) by lia.
  rewrite skipn_app_exact, beq_refl, firstn_app_exact. reflexivity.
Qed.

Lemma ends_with_dot_spec p : ends_with_dot p = true -> exists q, p = q ++ [DOT].
Proof.
  induction p as [|c p IH]; [discriminate|]. destruct p as [|c' p'].
  - cbn [ends_with_dot]. intros H. apply N.eqb_eq in H. subst c. exists []. reflexivity.
  - intros H. change (ends_with_dot (c' :: p') = true) in H. destruct (IH H) as [q ->]. exists (c :: q). reflexivity.
Qed.

Lemma ends_with_dot_app p : ends_with_dot (p ++ [DOT]) = true.
Proof.
  induction p as [|c p IH]; [reflexivity|]. cbn [app].
  destruct (p ++ [DOT]) as [|c' r] eqn:E; [destruct p; discriminate|]. exact IH.
Qed.

Lemma is_suffix_sound h r : is_suffix_at_label_boundary h r = true -> boundary3 h r.
Proof.
  unfold is_suffix_at_label_boundary. intros H. apply orb_true_iff in H as [H|H].
  - left. apply beq_eq, H.
  - destruct (strip_suffix h r) as [p|] eqn:E; [|discriminate]. apply strip_suffix_spec in E.
    apply orb_true_iff in H as [H|H].
    + right; left. apply ends_with_dot_spec in H as [q ->]. exists q. rewrite E, <- app_assoc. reflexivity.
    + right; right. split; [exact H|]. exists p. exact E.
Qed.

Lemma is_suffix_complete h r : boundary h r -> is_suffix_at_label_boundary h r = true.
Proof.
  unfold is_suffix_at_label_boundary. intros [->|[p ->]].
  - rewrite beq_refl. reflexivity.
  - replace (p ++ DOT :: r) with ((p ++ [DOT]) ++ r) by (rewrite <- app_assoc; reflexivity).
    rewrite strip_suffix_app, ends_with_dot_app. cbn [orb]. apply orb_true_r.
Qed.

(** a name that starts with a dot has an empty label *)
Lemma starts_with_dot_empty_label r : starts_with_dot r = true -> has_empty_label r = true.
Proof.
  destruct r as [|c r]; [discriminate|]. cbn [starts_with_dot]. intros H.
  unfold has_empty_label. cbn [split_dot]. rewrite H. reflexivity.
Qed.

(** *** soundness, for every provider, every IDNA oracle, both settings, both origin kinds *)
Section Sound.
  Variables (allow : bool) (prov : bytes -> option bytes) (puny : bytes -> bool) (to_ascii : bytes -> option bytes).

  (** the provider accepted the canonical ASCII form of [r] *)
  Definition accepted_ascii (r : bytes) : Prop := exists a, to_ascii r = Some a /\ prov a <> None.

  Lemma is_registrable_spec x : is_registrable prov puny to_ascii x = true <->
    decode_host puny x = true /\ accepted_ascii x.
  Proof.
    unfold is_registrable, accepted_ascii. rewrite andb_true_iff. split.
    - intros [Hd H]. split; [exact Hd|]. destruct (to_ascii x) as [a|]; [|discriminate].
      exists a. split; [reflexivity|]. destruct (prov a); [discriminate|discriminate].
    - intros [Hd (a & Ea & Hp)]. split; [exact Hd|]. rewrite Ea. destruct (prov a); [reflexivity|congruence].
  Qed.

  Lemma valid_continue x : assert_valid_rp_id allow prov puny to_ascii x = None ->
    x <> LOCALHOST /\ accepted_ascii x /\ decode_host puny x = true.
  Proof.
    unfold assert_valid_rp_id, not_registrable. destruct (beq_spec x LOCALHOST) as [->|Hne].
    - destruct allow; discriminate.
    - destruct (is_registrable prov puny to_ascii x) eqn:E; cbn [negb]; [|discriminate].
      apply is_registrable_spec in E as [Hd Ha]. intros _. auto.
  Qed.

  Lemma valid_break_ok x r : assert_valid_rp_id allow prov puny to_ascii x = Some (inl r) ->
    allow = true /\ x = LOCALHOST /\ r = LOCALHOST.
  Proof.
    unfold assert_valid_rp_id. destruct (beq_spec x LOCALHOST) as [->|Hne].
    - destruct allow; [|discriminate]. intros H. injection H as <-. auto.
    - destruct (not_registrable prov puny to_ascii x); discriminate.
  Qed.

  Theorem assert_domain_sound o rp r :
    assert_domain allow prov puny to_ascii o rp = inl r ->
    exists h, host_of o = Some h /\ effective o rp = Some r /\ boundary3 h r /\
      (localhost_exception allow o r \/
       ((is_web o = true -> eq_ignore_ascii_case (scheme_of o) HTTPS = true) /\ accepted_ascii r)).
  Proof.
    destruct o as [scheme [h|]|h]; cbn [assert_domain assert_web_rp_id assert_android_rp_id host_of is_web scheme_of].
    - (* web *)
      assert (Hstep : forall x, boundary3 h x -> (x = LOCALHOST -> h = LOCALHOST) ->
        match assert_valid_rp_id allow prov puny to_ascii x with
        | Some res => res
        | None => if negb (eq_ignore_ascii_case scheme HTTPS) then inr UnprotectedOrigin else inl x
        end = inl r ->
        r = x /\ (localhost_exception allow (Web scheme (Some h)) r \/
                  ((true = true -> eq_ignore_ascii_case scheme HTTPS = true) /\ accepted_ascii r))).
      { intros x Hb Hloc H. destruct (assert_valid_rp_id allow prov puny to_ascii x) as [[r'|e]|] eqn:Ev.
        - injection H as <-. apply valid_break_ok in Ev as (Ha & -> & ->). split; [reflexivity|].
          left. repeat split; auto. cbn [host_of]. f_equal. apply Hloc. reflexivity.
        - discriminate.
        - apply valid_continue in Ev as (Hne & Hp & _).
          destruct (eq_ignore_ascii_case scheme HTTPS) eqn:Es; cbn [negb] in H; [|discriminate].
          injection H as <-. split; [reflexivity|]. right. split; auto. }
      intros H. exists h. split; [reflexivity|]. destruct rp as [x|]; cbn [effective host_of].
      + destruct (is_suffix_at_label_boundary h x) eqn:Eb; cbn [negb] in H; [|discriminate].
        apply is_suffix_sound in Eb.
        destruct (beq_spec x LOCALHOST) as [Ex|Ex]; cbn [andb] in H.
        * destruct (beq_spec h LOCALHOST) as [Eh|Eh]; cbn [negb] in H; [|discriminate].
          destruct (Hstep x Eb (fun _ => Eh) H) as [-> Hr]. auto.
        * destruct (Hstep x Eb (fun E => False_ind _ (Ex E)) H) as [-> Hr]. auto.
      + destruct (Hstep h (or_introl eq_refl) (fun E => E) H) as [-> Hr].
        split; [reflexivity|]. split; [left; reflexivity|exact Hr].
    - intros H. discriminate.
    - (* android *)
      assert (Hstep : forall x, (if not_registrable prov puny to_ascii x then inr InvalidRpId else inl x) = inl r ->
                r = x /\ accepted_ascii r).
      { intros x. unfold not_registrable. destruct (is_registrable prov puny to_ascii x) eqn:E; cbn [negb]; [|discriminate].
        apply is_registrable_spec in E as [_ Ha]. intros H. injection H as <-. split; [reflexivity|exact Ha]. }
      intros H. exists h. split; [reflexivity|]. unfold assert_android_rp_id in H.
      destruct rp as [x|]; cbn [effective host_of]; cbv beta zeta in H.
      + destruct (is_suffix_at_label_boundary h x) eqn:Eb; cbn [negb] in H; [|discriminate].
        apply is_suffix_sound in Eb. destruct (Hstep x H) as [-> Hp].
        split; [reflexivity|]. split; [exact Eb|]. right. split; [discriminate|exact Hp].
      + destruct (Hstep h H) as [-> Hp].
        split; [reflexivity|]. split; [left; reflexivity|]. right. split; [discriminate|exact Hp].
  Qed.

  (** a provider that refuses names with an empty label, asked about an ASCII form that keeps a leading
      dot (the idna crate converts label by label), leaves only true label boundaries *)
  Theorem assert_domain_sound_label_boundary o rp r :
    (forall x, has_empty_label x = true -> prov x = None) ->
    (forall x a, to_ascii x = Some a -> starts_with_dot x = true -> has_empty_label a = true) ->
    assert_domain allow prov puny to_ascii o rp = inl r ->
    exists h, host_of o = Some h /\ effective o rp = Some r /\ boundary h r /\
      (localhost_exception allow o r \/
       ((is_web o = true -> eq_ignore_ascii_case (scheme_of o) HTTPS = true) /\ accepted_ascii r)).
  Proof.
    intros Hrej Hdotkeep H. destruct (assert_domain_sound o rp r H) as (h & Hh & He & Hb & Hr).
    exists h. split; [exact Hh|]. split; [exact He|]. split; [|exact Hr].
    destruct Hb as [Hb|[Hb|[Hdot _]]]; [left; exact Hb|right; exact Hb|].
    destruct Hr as [(_ & _ & -> & Hl)|[_ (a & Ea & Hp)]].
    - left. congruence.
    - exfalso. apply Hp, Hrej. exact (Hdotkeep r a Ea Hdot).
  Qed.

  (** the converse on well-formed input: nothing else is needed for acceptance *)
  Theorem assert_domain_complete o rp h r :
    host_of o = Some h -> effective o rp = Some r -> boundary h r ->
    (is_web o = true -> eq_ignore_ascii_case (scheme_of o) HTTPS = true) ->
    accepted_ascii r -> decode_host puny r = true -> r <> LOCALHOST ->
    assert_domain allow prov puny to_ascii o rp = inl r.
  Proof.
    intros Hh He Hb Hs Hp Hd Hne.
    assert (Hnr : not_registrable prov puny to_ascii r = false).
    { unfold not_registrable. rewrite (proj2 (is_registrable_spec r) (conj Hd Hp)). reflexivity. }
    assert (Hv : assert_valid_rp_id allow prov puny to_ascii r = None).
    { unfold assert_valid_rp_id. destruct (beq_spec r LOCALHOST); [congruence|]. rewrite Hnr. reflexivity. }
    assert (Hnl : beq r LOCALHOST = false) by (destruct (beq_spec r LOCALHOST); congruence).
    destruct o as [scheme [h'|]|h']; cbn [host_of is_web scheme_of] in *; try discriminate;
      injection Hh as ->; unfold assert_domain, assert_web_rp_id, assert_android_rp_id; cbv beta zeta.
    - destruct rp as [x|]; cbn [effective host_of] in He; injection He as ->.
      + rewrite (is_suffix_complete h r Hb), Hnl, Hv, (Hs eq_refl). reflexivity.
      + rewrite Hv, (Hs eq_refl). reflexivity.
    - destruct rp as [x|]; cbn [effective host_of] in He; injection He as ->.
      + rewrite (is_suffix_complete h r Hb), Hnr. reflexivity.
      + rewrite Hnr. reflexivity.
  Qed.
End Sound.

Theorem assert_domain_complete_localhost prov puny to_ascii scheme rp :
  rp = None \/ rp = Some LOCALHOST ->
  assert_domain true prov puny to_ascii (Web scheme (Some LOCALHOST)) rp = inl LOCALHOST.
Proof. intros [->| ->]; reflexivity. Qed.

(** *** the default provider *)
Definition default_provider : bytes -> option bytes := provider_of_table TABLE.

Lemma default_provider_spec x : default_provider x = psl_etld1 RULES x.
Proof.
  unfold default_provider, provider_of_table. rewrite etld1_correct.
  destruct (psl_etld1 RULES x); reflexivity.
Qed.

(** the first premise of [assert_domain_sound_label_boundary] holds for the shipped list *)
Theorem default_provider_rejects_empty_labels x : has_empty_label x = true -> default_provider x = None.
Proof. intros H. rewrite default_provider_spec. unfold psl_etld1. rewrite H. reflexivity. Qed.

(** [a] is a registrable domain under the publicsuffix.org algorithm on the shipped rule file (IDN rules
    in their punycode form included): no empty label, strictly more labels than its public suffix, hence
    not itself a public suffix *)
Definition registrable_name (a : bytes) : Prop :=
  has_empty_label a = false /\
  (psl_len beq RULES (dom_labels a) < length (dom_labels a))%nat /\
  psl_is_suffix RULES a = false /\
  exists e, psl_etld1 RULES a = Some e.

Lemma default_accepts_registrable a : default_provider a <> None -> registrable_name a.
Proof.
  intros Hp. rewrite default_provider_spec in Hp. destruct (psl_etld1 RULES a) as [e|] eqn:E; [|congruence].
  pose proof (psl_etld1_some RULES a e E) as (He & Hlt & _).
  split; [exact He|]. split; [exact Hlt|]. split; [|exists e; exact E].
  unfold psl_is_suffix. rewrite He. cbn [negb andb]. apply Nat.leb_gt. exact Hlt.
Qed.

(** what the default provider lets through: the canonical ASCII form of the RP ID is registrable, so an
    upper-case or Unicode spelling of a public suffix is refused like the suffix itself *)
Theorem assert_domain_registrable_default allow puny to_ascii o rp r :
  assert_domain allow default_provider puny to_ascii o rp = inl r ->
  localhost_exception allow o r \/ exists a, to_ascii r = Some a /\ registrable_name a.
Proof.
  intros H. destruct (assert_domain_sound allow default_provider puny to_ascii o rp r H) as (h & _ & _ & _ & [Hl|[_ (a & Ea & Hp)]]).
  - left. exact Hl.
  - right. exists a. split; [exact Ea|]. apply default_accepts_registrable, Hp.
Qed.

(** for an RP ID that is its own ASCII form (lower-case ASCII, punycode) this is about the RP ID itself *)
Theorem assert_domain_registrable_default_ascii allow puny to_ascii o rp r :
  to_ascii r = Some r ->
  assert_domain allow default_provider puny to_ascii o rp = inl r ->
  localhost_exception allow o r \/ registrable_name r.
Proof.
  intros Hr H. destruct (assert_domain_registrable_default allow puny to_ascii o rp r H) as [Hl|(a & Ea & Ha)].
  - left. exact Hl.
  - right. rewrite Hr in Ea. injection Ea as <-. exact Ha.
Qed.

Theorem assert_domain_sound_default allow puny to_ascii o rp r :
  (forall x a, to_ascii x = Some a -> starts_with_dot x = true -> has_empty_label a = true) ->
  assert_domain allow default_provider puny to_ascii o rp = inl r ->
  exists h, host_of o = Some h /\ effective o rp = Some r /\ boundary h r /\
    (localhost_exception allow o r \/
     ((is_web o = true -> eq_ignore_ascii_case (scheme_of o) HTTPS = true) /\
      accepted_ascii default_provider to_ascii r)).
Proof. apply assert_domain_sound_label_boundary. exact default_provider_rejects_empty_labels. Qed.

(** *** label boundaries as labels: [r]'s labels are the last labels of [h] *)
Lemma split_dot_app p : forall r, split_dot (p ++ DOT :: r) = split_dot p ++ split_dot r.
Proof.
  induction p as [|c p IH]; intros r.
  - cbn [app split_dot]. rewrite N.eqb_refl. reflexivity.
  - change ((c :: p) ++ DOT :: r) with (c :: (p ++ DOT :: r)).
    destruct (N.eqb_spec c DOT) as [->|Hne].
    + cbn [split_dot]. rewrite N.eqb_refl, IH. reflexivity.
    + apply N.eqb_neq in Hne.
      destruct (split_dot_cons_nodot c (p ++ DOT :: r) Hne) as (l & ls & E1 & E2).
      destruct (split_dot_cons_nodot c p Hne) as (l' & ls' & E1' & E2').
      rewrite E2, E2'. rewrite IH, E1' in E1. cbn [app] in E1. injection E1 as <- <-. reflexivity.
Qed.

Lemma prefix_app (a b : list bytes) : prefix beq a (a ++ b) = true.
Proof. induction a as [|x a IH]; [reflexivity|]. cbn [app prefix]. rewrite beq_refl, IH. reflexivity. Qed.

Theorem boundary_labels h r : boundary h r -> prefix beq (dom_labels r) (dom_labels h) = true.
Proof.
  intros [->|[p ->]].
  - rewrite <- (app_nil_r (dom_labels r)) at 2. apply prefix_app.
  - unfold dom_labels. rewrite split_dot_app, rev_app_distr. apply prefix_app.
Qed.

(** *** the converse of [boundary_labels], so that the label form used by the oracle is the same notion *)
Lemma prefix_spec (a : list bytes) : forall b, prefix beq a b = true -> exists c, b = a ++ c.
Proof.
  induction a as [|x a IH]; intros b H; [exists b; reflexivity|].
  destruct b as [|y b]; [discriminate|]. cbn [prefix] in H. apply andb_true_iff in H as [H1 H2].
  apply beq_eq in H1. subst y. destruct (IH b H2) as [c ->]. exists c. reflexivity.
Qed.

Theorem labels_boundary h r : prefix beq (dom_labels r) (dom_labels h) = true -> boundary h r.
Proof.
  intros H. apply prefix_spec in H as [c Hc]. unfold dom_labels in Hc.
  assert (Hs : split_dot h = rev c ++ split_dot r).
  { rewrite <- (rev_involutive (split_dot h)), Hc, rev_app_distr, rev_involutive. reflexivity. }
  destruct c as [|x c].
  - left. cbn [rev app] in Hs. rewrite <- (join_split h), <- (join_split r), Hs. reflexivity.
  - right. exists (join_dot (rev (x :: c))).
    rewrite <- (join_split h) at 1. rewrite Hs, join_dot_app; [|apply rev_cons_nonempty|apply split_dot_nonempty].
    rewrite join_split. reflexivity.
Qed.

Theorem boundary_iff_labels h r : boundary h r <-> prefix beq (dom_labels r) (dom_labels h) = true.
Proof. split; [apply boundary_labels|apply labels_boundary]. Qed.

(** *** the oracle of the correspondence run holds on every answer of the model *)
Lemma str_suffix_app p r : str_suffix r (p ++ r) = true.
Proof.
  unfold str_suffix. rewrite app_length.
  replace (length r <=? length p + length r)%nat with true by (symmetry; apply Nat.leb_le; lia).
  replace (length p + length r - length r)%nat with (length p) by lia.
  rewrite skipn_app_exact. apply beq_refl.
Qed.

Lemma provider_rejects_empty pk : pk <> POk -> forall x, has_empty_label x = true -> provider_of pk x = None.
Proof.
  intros Hpk x Hx. destruct pk; cbn [provider_of]; [|reflexivity|congruence|].
  - apply default_provider_rejects_empty_labels, Hx.
  - unfold custom_provider, custom_ok. rewrite Hx. reflexivity.
Qed.

Lemma provider_registrable pk r : provider_of pk r <> None -> registrable pk r = true.
Proof.
  destruct pk; cbn [provider_of registrable]; intros H; [|congruence|reflexivity|].
  - change (provider_of_table TABLE r) with (default_provider r) in H. rewrite default_provider_spec in H.
    destruct (psl_etld1 RULES r); [reflexivity|congruence].
  - unfold custom_provider in H. destruct (custom_ok r); [reflexivity|congruence].
Qed.

Theorem oracle_on_model allow pk puny to_ascii o rp canon :
  (forall r a, effective o rp = Some r -> to_ascii r = Some a ->
     a = canon /\ (starts_with_dot r = true -> has_empty_label a = true)) ->
  c01_ok allow pk o rp canon (res_code (assert_domain allow (provider_of pk) puny to_ascii o rp)) = true.
Proof.
  intros Hcanon.
  destruct (assert_domain allow (provider_of pk) puny to_ascii o rp) as [r|e] eqn:E; [|reflexivity].
  cbn [res_code]. unfold c01_ok.
  destruct (assert_domain_sound allow (provider_of pk) puny to_ascii o rp r E) as (h & Hh & He & Hb & Hr).
  rewrite Hh, He. cbn [opt_eqb]. rewrite beq_refl. cbn [andb].
  assert (Hbb : boundary_b pk h r = true).
  { unfold boundary_b. destruct Hb as [Hb|[Hb|[Hdot [p Hp]]]].
    - rewrite (boundary_labels h r (or_introl Hb)). reflexivity.
    - rewrite (boundary_labels h r (or_intror Hb)). reflexivity.
    - destruct Hr as [(_ & _ & -> & Hl)|[_ (a & Ea & Hp')]].
      + rewrite Hh in Hl. injection Hl as ->. rewrite (boundary_labels LOCALHOST LOCALHOST (or_introl eq_refl)). reflexivity.
      + destruct (Hcanon r a He Ea) as [_ Hempty].
        destruct pk; try (exfalso; apply Hp'; apply provider_rejects_empty; [discriminate|]; apply Hempty, Hdot).
        rewrite Hdot, Hp, str_suffix_app. apply orb_true_r. }
  rewrite Hbb. cbn [andb].
  destruct Hr as [(-> & Hw & -> & Hl)|[Hs (a & Ea & Hp)]].
  - rewrite Hh in Hl. injection Hl as ->. rewrite Hw, !beq_refl. reflexivity.
  - destruct (Hcanon r a He Ea) as [-> _].
    rewrite (provider_registrable pk canon Hp). destruct (is_web o) eqn:Ew.
    + rewrite (Hs eq_refl). cbn [negb orb andb]. apply orb_true_r.
    + cbn [negb orb andb]. apply orb_true_r.
Qed.
