(** Executable model of the RP ID check of passkey-client/src/lib.rs as it is now:
    [RpIdVerifier::assert_domain], [assert_web_rp_id], [assert_valid_rp_id], [is_valid_rp_id],
    [assert_android_rp_id], [decode_host], [is_suffix_at_label_boundary].  Definitions only.

    Third-party code is not modelled but taken as input: [Url::scheme()] / [Url::domain()] of the parsed
    origin are the fields of [Web]; the verdict of [idna::domain_to_unicode] is the oracle [puny_ok] and
    the result of [idna::domain_to_ascii] the oracle [to_ascii];
    the public-suffix provider is a parameter ([.ok()] of its answer), instantiated in RpIdFacts with the
    C10 model of the shipped list. *)
From PK Require Import Lib.Bytes Psl.PslSpec Psl.PslModel.
Open Scope N_scope.

Inductive werr :=
| OriginMissingDomain | OriginRpMissmatch | UnprotectedOrigin | InsecureLocalhostNotAllowed | InvalidRpId.

(** [Origin::Web(url)] seen through [url.scheme()] and [url.domain()]; [Origin::Android(link)] through
    [link.host()] *)
Inductive origin :=
| Web (scheme : bytes) (domain : option bytes)
| Android (host : bytes).

Definition LOCALHOST : bytes := [108; 111; 99; 97; 108; 104; 111; 115; 116].   (* "localhost" *)
Definition HTTPS : bytes := [104; 116; 116; 112; 115].                         (* "https" *)
Definition XN : bytes := [120; 110; 45; 45].                                   (* "xn--" *)

(** [str::starts_with(&str)] *)
Fixpoint starts_with (s p : bytes) : bool :=
  match p, s with
  | [], _ => true
  | x :: p', y :: s' => (x =? y) && starts_with s' p'
  | _ :: _, [] => false
  end.

(** [str::strip_suffix]: [Some prefix] when [s = prefix ++ suf] *)
Definition strip_suffix (s suf : bytes) : option bytes :=
  if (length suf <=? length s)%nat && beq (skipn (length s - length suf) s) suf
  then Some (firstn (length s - length suf) s)
  else None.

(** [u8::to_ascii_lowercase], [str::eq_ignore_ascii_case] *)
Definition ascii_lower (c : N) : N := if (65 <=? c) && (c <=? 90) then c + 32 else c.
Definition eq_ignore_ascii_case (a b : bytes) : bool := beq (map ascii_lower a) (map ascii_lower b).

Section Verifier.
  Variable allows_insecure_localhost : bool.
  (** [self.tld_provider.effective_tld_plus_one(x).ok()] *)
  Variable provider : bytes -> option bytes.
  (** [idna::domain_to_unicode(x).1.is_ok()] *)
  Variable puny_ok : bytes -> bool.
  (** [idna::domain_to_ascii(x).ok()]: the canonical ASCII (lower-case, punycode) form *)
  Variable to_ascii : bytes -> option bytes.

  (** [fn decode_host(host: &str) -> Option<Cow<str>>]; only [is_some] of the result is ever used *)
  Definition decode_host (host : bytes) : bool :=
    if existsb (fun s => starts_with s XN) (split_dot host)      (* host.split('.').any(|s| s.starts_with("xn--")) *)
    then puny_ok host                                            (* result.ok().map(..) *)
    else true.                                                   (* Some(Cow::from(host)) *)

  (** [fn is_suffix_at_label_boundary(host: &str, rp_id: &str) -> bool] *)
  Definition is_suffix_at_label_boundary (host rp_id : bytes) : bool :=
    beq host rp_id                                               (* host == rp_id *)
    || match strip_suffix host rp_id with                        (* || host.strip_suffix(rp_id).is_some_and(|prefix| *)
       | Some prefix => ends_with_dot prefix || starts_with_dot rp_id   (* prefix.ends_with('.') || rp_id.starts_with('.')) *)
       | None => false
       end.

  (** [fn is_registrable(&self, rp_id: &str) -> bool]: the provider is consulted with the ASCII form *)
  Definition is_registrable (x : bytes) : bool :=
    decode_host x                                                (* decode_host(rp_id) *)
    && match to_ascii x with                                     (*   .and_then(|_| idna::domain_to_ascii(rp_id).ok()) *)
       | Some ascii =>                                           (*   .is_some_and(|ascii| *)
           match provider ascii with Some _ => true | None => false end   (* provider.effective_tld_plus_one(&ascii).is_ok()) *)
       | None => false
       end.
  Definition not_registrable (x : bytes) : bool := negb (is_registrable x).   (* if !self.is_registrable(..) *)

  (** [fn assert_valid_rp_id(&self, rp_id) -> ControlFlow<Result<&str, WebauthnError>, ()>]:
      [Some res] is [Break(res)], [None] is [Continue(())] *)
  Definition assert_valid_rp_id (rp_id : bytes) : option (bytes + werr) :=
    if beq rp_id LOCALHOST then                                  (* if rp_id == "localhost" *)
      if allows_insecure_localhost then Some (inl rp_id)         (*   Break(Ok(rp_id)) *)
      else Some (inr InsecureLocalhostNotAllowed)                (*   Break(Err(InsecureLocalhostNotAllowed)) *)
    else if not_registrable rp_id then Some (inr InvalidRpId)    (* Break(Err(InvalidRpId)) *)
    else None.                                                   (* Continue(()) *)

  (** [pub fn is_valid_rp_id(&self, rp_id: &str) -> bool] *)
  Definition is_valid_rp_id (rp_id : bytes) : bool :=
    match assert_valid_rp_id rp_id with
    | None | Some (inl _) => true
    | Some (inr _) => false
    end.

  (** [fn assert_web_rp_id(&self, origin: &Url, rp_id: Option<&str>) -> Result<&str, WebauthnError>] *)
  Definition assert_web_rp_id (scheme : bytes) (domain : option bytes) (rp_id : option bytes) : bytes + werr :=
    match domain with
    | None => inr OriginMissingDomain                            (* origin.domain().ok_or(OriginMissingDomain)? *)
    | Some effective_domain =>
        let step (effective_domain : bytes) : bytes + werr :=
          match assert_valid_rp_id effective_domain with         (* if let Break(res) = self.assert_valid_rp_id(..) *)
          | Some res => res                                      (*   return res; *)
          | None =>
              if negb (eq_ignore_ascii_case scheme HTTPS)        (* if !(origin.scheme().eq_ignore_ascii_case("https")) *)
              then inr UnprotectedOrigin
              else inl effective_domain                          (* Ok(effective_domain) *)
          end in
        match rp_id with
        | Some rp_id =>                                          (* if let Some(rp_id) = rp_id { *)
            if negb (is_suffix_at_label_boundary effective_domain rp_id)
            then inr OriginRpMissmatch
            else if beq rp_id LOCALHOST && negb (beq effective_domain LOCALHOST)
            then inr InvalidRpId                                 (* rp_id == "localhost" && effective_domain != "localhost" *)
            else step rp_id                                      (* effective_domain = rp_id; } *)
        | None => step effective_domain
        end
    end.

  (** [fn assert_android_rp_id(&self, target_link, rp_id: Option<&str>) -> Result<&str, WebauthnError>] *)
  Definition assert_android_rp_id (host : bytes) (rp_id : option bytes) : bytes + werr :=
    let step (effective_rp_id : bytes) : bytes + werr :=
      if not_registrable effective_rp_id then inr InvalidRpId else inl effective_rp_id in
    match rp_id with
    | Some rp_id =>
        if negb (is_suffix_at_label_boundary host rp_id) then inr OriginRpMissmatch
        else step rp_id
    | None => step host
    end.

  (** [pub fn assert_domain(&self, origin: &Origin, rp_id: Option<&str>) -> Result<&str, WebauthnError>] *)
  Definition assert_domain (o : origin) (rp_id : option bytes) : bytes + werr :=
    match o with
    | Web scheme domain => assert_web_rp_id scheme domain rp_id
    | Android host => assert_android_rp_id host rp_id
    end.
End Verifier.

(** the default provider: C10's model of [DEFAULT_PROVIDER.effective_tld_plus_one(x).ok()].  A panic
    (impossible: [PslData.no_panic]) would unwind through [assert_domain]; it is mapped to [None] here
    and the correspondence treats a panicking call as a disagreement. *)
Definition provider_of_table (T : table) (x : bytes) : option bytes :=
  match effective_tld_plus_one T x with
  | Val (inl r) => Some r
  | _ => None
  end.

(** vocabulary of the statements about [assert_domain] *)
Definition host_of (o : origin) : option bytes := match o with Web _ d => d | Android h => Some h end.
Definition is_web (o : origin) : bool := match o with Web _ _ => true | Android _ => false end.
Definition scheme_of (o : origin) : bytes := match o with Web s _ => s | Android _ => [] end.
(** the effective RP ID: the one supplied, otherwise the origin's host *)
Definition effective (o : origin) (rp : option bytes) : option bytes :=
  match rp with Some x => Some x | None => host_of o end.
