(** A small model of Rust method-call resolution, restricted to what the forwarding impl of the sealed
    [Ctap2Api] trait for [Authenticator] exercises, and of what a call through the trait then does.

    Inside `impl Ctap2Api for Authenticator` the expression that forwards to the inherent method is
    either a path call `Authenticator::m(self, ..)` or a method call `self.m(..)`.
    - Path call: `Type::m` names the inherent associated function when there is an applicable one
      (the inherent impl's where-clause bounds are implied by the caller's), else the trait method.
    - Method call: the receiver expression `self` has type `&A` / `&mut A` as the trait method
      declares. Probing starts at exactly that type; at each receiver type inherent methods are
      considered before trait methods, and an inherent candidate whose impl bounds do not hold is
      skipped silently. At the first step the trait method itself always matches (its receiver type
      IS the type of `self`), so the inherent method wins only if its receiver kind equals the
      trait's and its bounds are implied; otherwise the call resolves to the trait method again. *)
From Coq Require Import Bool List String.
Import ListNotations.

Inductive recv := ByRef | ByMut | ByVal.
Inductive fwd := ViaPath | ViaMethodCall.
Record mfacts := { trait_recv : recv; inh_recv : recv; fwd_kind : fwd; bounds_implied : bool }.

Inductive target := Inherent | TraitItself.

Definition recv_eqb (a b : recv) : bool :=
  match a, b with ByRef, ByRef | ByMut, ByMut | ByVal, ByVal => true | _, _ => false end.

Definition resolve (f : mfacts) : target :=
  match fwd_kind f with
  | ViaPath => if bounds_implied f then Inherent else TraitItself
  | ViaMethodCall => if recv_eqb (inh_recv f) (trait_recv f) && bounds_implied f then Inherent else TraitItself
  end.

(** calling the trait method: it forwards to whatever its body resolves to *)
Inductive outcome (A : Type) := Done (a : A) | OutOfFuel.
Arguments Done {A}. Arguments OutOfFuel {A}.

Fixpoint call {A} (fuel : nat) (f : mfacts) (direct : A) : outcome A :=
  match fuel with
  | O => OutOfFuel
  | S n => match resolve f with
           | Inherent => Done direct
           | TraitItself => call n f direct
           end
  end.

Lemma call_inherent {A} f (direct : A) fuel : resolve f = Inherent -> call (S fuel) f direct = Done direct.
Proof. intros H. cbn. rewrite H. reflexivity. Qed.

Lemma call_diverges {A} f (direct : A) : resolve f = TraitItself -> forall fuel, call fuel f direct = OutOfFuel.
Proof. intros H fuel. induction fuel as [|n IH]; cbn; [reflexivity|]. rewrite H. exact IH. Qed.

Definition all_inherent (api : list (string * mfacts)) : bool :=
  forallb (fun nf => match resolve (snd nf) with Inherent => true | TraitItself => false end) api.

Lemma all_inherent_spec api : all_inherent api = true ->
  forall name f, In (name, f) api -> forall A (direct : A) fuel, call (S fuel) f direct = Done direct.
Proof.
  unfold all_inherent. rewrite forallb_forall. intros H name f Hin A direct fuel.
  apply call_inherent. specialize (H _ Hin). cbn in H. destruct (resolve f); [reflexivity|discriminate].
Qed.
