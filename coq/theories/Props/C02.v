(** C02 - registration returns a credential that a standard relying party can verify.
    Statements only; proofs are in Auth/C02Facts.v.

    The model: [Client.register] (passkey-client) over [Authenticator.make_credential]
    (passkey-authenticator), programs over effects; randomness and key generation are the answers of
    the events [ERand n] / [EKeyGen], universally quantified.  Every theorem holds for EVERY
    configuration, request (challenge, user, algorithm list, exclude list, selection, extensions),
    origin text, client-data mode and answer script.

    [RegistrationRun c rp origin q cd tr cr cred_id d x y pk] (Auth/C02Facts.v) spells out what a
    successful run consists of: the trace [tr] is
       quiet events (capability queries, the user check, the exclude lookup)
       ++ [ERand (c_id_len c) -> cred_id ; EKeyGen -> (d, x, y)]
       ++ ERand/EHmac events of the extension processing
       ++ [EStoreInfo ; ESave pk .. -> Ok ; EStoreInfo],
    and every field of the returned credential [cr] is given in terms of the request and those answers.
    [c02_run_shape] says every successful registration is such a run; the other theorems read it.

    What the model cannot say and the run checks on real observations instead (driver/c02.py): that
    (x, y) is a point of P-256 and equals d*G (ECDSA/point arithmetic is not modelled), and that
    credential ids are fresh (pairwise distinct across a run: observed, not proved). *)
From Coq Require Import ZArith.
From PK Require Import Lib.Sha256 Lib.Base64 Lib.Cbor Wire.AuthDataSpec.
From PK Require Import Auth.C02Facts.
Open Scope N_scope.

(** every successful registration is a [RegistrationRun] *)
Theorem c02_run_shape : forall c rp origin q cd script tr cr,
  interp (register c (Ok rp) origin q cd) script = (tr, Some (Ok cr)) ->
  exists cred_id d x y pk, RegistrationRun c rp origin q cd tr cr cred_id d x y pk.
Proof. exact register_ok_inv. Qed.

(** client data JSON, read member by member with a JSON string reader (escapes undone): type
    webauthn.create, the request's challenge in base64url - which decodes back to the challenge and
    contains no padding character - and the caller's origin, in this order; then crossOrigin false,
    the caller's extra members and the closing brace *)
Theorem c02_client_data : forall c rp origin q cd tr cr cred_id d x y pk,
  RegistrationRun c rp origin q cd tr cr cred_id d x y pk ->
  bytes_ok (rq_challenge q) ->
  cd_view (cr_client_data_json cr) =
    Some (T_CREATE, b64url_encode (rq_challenge q), origin,
          P_CROSS ++ match cd with CdExtra tail => tail | _ => [] end ++ [125])
  /\ b64url_decode (b64url_encode (rq_challenge q)) = Some (rq_challenge q)
  /\ ~ In 61 (b64url_encode (rq_challenge q)).
Proof. exact run_client_data_view. Qed.

(** serde_json's string escaping is undone by the reader, for every byte string *)
Theorem c02_json_string_round_trip : forall s X, read_jstring (json_escape s ++ 34 :: X) = Some (s, X).
Proof. exact read_json_escape. Qed.

(** the attestation object decodes (CBOR) to exactly fmt = "none", attStmt = {}, authData = the
    returned authenticator data, byte for byte, with nothing after it *)
Theorem c02_attestation_object : forall c rp origin q cd tr cr cred_id d x y pk,
  RegistrationRun c rp origin q cd tr cr cred_id d x y pk -> config_wf c -> answers_wf tr ->
  cbor_decode cbor_fuel (cr_att_obj cr) =
  Some (CMap [(CText T_FMT, CText T_NONE); (CText T_ATTSTMT, CMap []); (CText T_AUTHDATA, CBytes (cr_auth_data cr))], []).
Proof. exact run_attestation_object. Qed.

(** authenticator data, read with the layout decoder written from WebAuthn 6.1 / 6.5.1: rpIdHash =
    SHA-256 of the effective RP ID, AT set (ED clear), attested credential data with the configured
    AAGUID, credential id = the returned raw id, and the COSE key {1:2, 3:-7, -1:1, -2:x, -3:y} of the
    generated key pair and nothing else *)
Theorem c02_authenticator_data : forall c rp origin q cd tr cr cred_id d x y pk,
  RegistrationRun c rp origin q cd tr cr cred_id d x y pk -> config_wf c -> answers_wf tr ->
  exists flags,
    parse_authdata_spec (cr_auth_data cr) =
    Some {| f_rp_id_hash := sha256 rp; f_flags := flags; f_sign_count := 0;
            f_acd := Some (c_aaguid c, cr_raw_id cr,
                           CMap [(CInt 1, CInt 2); (CInt 3, CInt (-7)); (CInt (-1), CInt 1);
                                 (CInt (-2), CBytes x); (CInt (-3), CBytes y)]);
            f_ext := None |}
    /\ N.testbit flags 6 = true /\ N.testbit flags 7 = false.
Proof. exact run_authdata. Qed.

(** id = base64url of the raw id; the DER public key is the SubjectPublicKeyInfo of the same (x, y)
    that the COSE key carries; both coordinates are 32 bytes; the reported algorithm is ES256 *)
Theorem c02_ids_and_public_key : forall c rp origin q cd tr cr cred_id d x y pk,
  RegistrationRun c rp origin q cd tr cr cred_id d x y pk ->
  cr_id cr = b64url_encode (cr_raw_id cr) /\ cr_public_key cr = Some (SPKI_PREFIX ++ x ++ y)
  /\ length x = 32%nat /\ length y = 32%nat /\ cr_alg cr = ES256.
Proof. exact run_ids. Qed.

(** the algorithm reported is the one [choose_algorithm] picks from the relying party's list (the
    WebAuthn defaults ES256, RS256 when the list is empty), and [choose_algorithm] picks the first
    entry that the authenticator supports *)
Theorem c02_algorithm : forall c rp origin q cd tr cr cred_id d x y pk,
  RegistrationRun c rp origin q cd tr cr cred_id d x y pk ->
  choose_algorithm c (match rq_params q with [] => [ES256; (-257)%Z] | l => l end) = Some (cr_alg cr).
Proof. exact run_algorithm. Qed.

Theorem c02_algorithm_is_first_supported : forall c params a,
  choose_algorithm c params = Some a <->
  exists pre post, params = pre ++ a :: post /\ existsb (Z.eqb a) (c_algs c) = true
                   /\ Forall (fun b => existsb (Z.eqb b) (c_algs c) = false) pre.
Proof. exact choose_algorithm_first. Qed.

(** a list with no supported entry: for every script nothing random is drawn, no key is generated,
    nothing is saved, updated or signed, and the registration does not succeed; on the reference
    store the content is unchanged; and once the ceremony reaches the algorithm step (user consented,
    no excluded credential) the authenticator's answer is UnsupportedAlgorithm *)
Theorem c02_no_supported_algorithm : forall c domain origin q cd script,
  choose_algorithm c (match rq_params q with [] => [ES256; (-257)%Z] | l => l end) = None ->
  Forall (fun ea => negb (match fst ea with ERand _ | EKeyGen | ESave _ _ _ _ | EUpdate _ | ESign _ _ => true | _ => false end) = true)
         (fst (interp (register c domain origin q cd) script))
  /\ forall cr, snd (interp (register c domain origin q cd) script) <> Some (Ok cr).
Proof. exact register_no_supported_algorithm. Qed.

Theorem c02_no_supported_algorithm_store : forall c domain origin q cd st disc script,
  choose_algorithm c (match rq_params q with [] => [ES256; (-257)%Z] | l => l end) = None ->
  fst (fst (exec (register c domain origin q cd) st disc script)) = st.
Proof. exact register_no_supported_algorithm_store. Qed.

Theorem c02_no_supported_algorithm_status : forall c q flags,
  choose_algorithm c (mc_params q) = None -> mc_after_exclude c q flags = Ret (Err CTAP2_UnsupportedAlgorithm).
Proof. exact mc_after_exclude_noalg. Qed.

Theorem c02_no_supported_means : forall c params,
  choose_algorithm c params = None <-> Forall (fun b => existsb (Z.eqb b) (c_algs c) = false) params.
Proof. exact choose_algorithm_none. Qed.

(** exactly one credential is handed to the store (answered Ok), exactly one key pair is generated,
    nothing is updated or signed *)
Theorem c02_one_save_one_key : forall c rp origin q cd tr cr cred_id d x y pk,
  RegistrationRun c rp origin q cd tr cr cred_id d x y pk ->
  exists u rpe opts,
    filter (fun ea => is_save (fst ea)) tr = [(ESave pk u rpe opts, AUnit (Ok tt))]
    /\ filter (fun ea => is_keygen (fst ea)) tr = [(EKeyGen, AKey d x y)]
    /\ filter (fun ea => is_update (fst ea)) tr = [] /\ filter (fun ea => is_sign (fst ea)) tr = [].
Proof. exact run_one_save. Qed.

(** the save comes after every step that can fail: no mutation before it, and what follows is one
    capability query of the store (infallible); the result is then assembled without further calls *)
Theorem c02_save_after_fallible_steps : forall c rp origin q cd tr cr cred_id d x y pk,
  RegistrationRun c rp origin q cd tr cr cred_id d x y pk ->
  exists pre u rpe opts dlast,
    tr = pre ++ [(ESave pk u rpe opts, AUnit (Ok tt)); (EStoreInfo, AInfo dlast)]
    /\ filter (fun ea => mutates (fst ea)) pre = [].
Proof. exact run_save_last. Qed.

(** the stored credential holds the private scalar d of the key pair whose public half (x, y) is
    attested and returned, the effective RP ID, and the returned raw id *)
Theorem c02_stored_credential : forall c rp origin q cd tr cr cred_id d x y pk,
  RegistrationRun c rp origin q cd tr cr cred_id d x y pk ->
  k_d (pk_key pk) = Some d /\ k_x (pk_key pk) = x /\ k_y (pk_key pk) = y
  /\ k_es256 (pk_key pk) = true /\ k_ec2 (pk_key pk) = true
  /\ pk_rp_id pk = rp /\ pk_cred_id pk = cr_raw_id cr /\ private_key (pk_key pk) = Ok d.
Proof. exact run_passkey. Qed.

(** the raw id is the answer of the request for [c_id_len c] random bytes, (d, x, y) the answer of the
    key generation; its length is the configured one, and the configured one is always within 16..64 *)
Theorem c02_randomness : forall c rp origin q cd tr cr cred_id d x y pk,
  RegistrationRun c rp origin q cd tr cr cred_id d x y pk ->
  In (ERand (c_id_len c), ABytes (cr_raw_id cr)) tr /\ In (EKeyGen, AKey d x y) tr.
Proof. exact run_randomness. Qed.

Theorem c02_id_length : forall c rp origin q cd tr cr cred_id d x y pk,
  RegistrationRun c rp origin q cd tr cr cred_id d x y pk -> config_wf c -> answers_wf tr ->
  N.of_nat (length (cr_raw_id cr)) = c_id_len c /\ 16 <= N.of_nat (length (cr_raw_id cr)) <= 64.
Proof. exact run_id_length. Qed.

Theorem c02_id_length_clamped : forall n,
  16 <= clamp_id_len n <= 64 /\ (16 <= n <= 64 -> clamp_id_len n = n).
Proof. exact clamp_id_len_range. Qed.

(** on the reference store: the store afterwards is the store before with exactly that passkey put
    in - appended when the id is fresh *)
Theorem c02_store_step : forall c rp origin q cd st disc script st' tr cr,
  exec (register c (Ok rp) origin q cd) st disc script = (st', tr, Some (Ok cr)) ->
  exists cred_id d x y pk,
    RegistrationRun c rp origin q cd tr cr cred_id d x y pk
    /\ st' = put st pk
    /\ (get_by_id st (cr_raw_id cr) = None -> st' = st ++ [pk]).
Proof. exact register_store_step. Qed.

(** a registration that ends in an error leaves the reference store as it was (ES256-only
    authenticator, 32-byte key coordinates: the client's own checks after make_credential cannot fail) *)
Theorem c02_error_leaves_store : forall c domain origin q cd st disc script st' tr e,
  exec (register c domain origin q cd) st disc script = (st', tr, Some (Err e)) ->
  es256_only c -> keys32 tr -> st' = st.
Proof. exact register_store_err. Qed.

(** sequences of completed registrations into the same store: the store is the initial one with the
    passkeys of the successful registrations put in, in order *)
Theorem c02_sequences : forall h disc st,
  regs_complete h st disc ->
  fst (run_regs h st disc) = fold_left put (snd (run_regs h st disc)) st.
Proof. exact run_regs_store. Qed.

(** non-vacuity: a script on which a registration succeeds (empty algorithm list = defaults, uv
    preferred), with a well-formed configuration; and a list without a supported entry *)
Definition ex_config : config :=
  {| c_aaguid := repeat 0 16; c_algs := [ES256]; c_counter := true; c_id_len := clamp_id_len 3; c_hmac := None |}.
Definition ex_request (params : list Z) : reg_request :=
  {| rq_rp_id := None; rq_rp_name := [82]; rq_user := {| u_id := [1; 2]; u_name := Some [119]; u_display := Some [87] |};
     rq_challenge := [0; 255; 16]; rq_params := params; rq_exclude := None; rq_selection := None; rq_ext := None |}.
Definition ex_script : list answer :=
  [AInfo Full; AOptBool (Some true); ABool true; AOptBool (Some true); ACheck (Ok (true, true));
   ABytes (repeat 9 16); AKey (repeat 1 32) (repeat 2 32) (repeat 3 32); AInfo Full; AUnit (Ok tt); AInfo Full].

Example c02_example_success :
  exists tr cr, interp (register ex_config (Ok [97; 46; 98]) [104; 116; 116; 112; 115; 58; 47; 47; 97; 46; 98] (ex_request []) CdDefault) ex_script
                = (tr, Some (Ok cr))
  /\ cr_alg cr = ES256 /\ cr_raw_id cr = repeat 9 16 /\ config_wf ex_config.
Proof.
  eexists. eexists. split; [vm_compute; reflexivity|]. split; [reflexivity|]. split; [reflexivity|].
  unfold config_wf. split; [reflexivity|]. split; [apply bytes_ok_repeat0|]. vm_compute. split; discriminate.
Qed.

Example c02_example_no_supported :
  choose_algorithm ex_config (match rq_params (ex_request [(-257)%Z; (-8)%Z]) with [] => [ES256; (-257)%Z] | l => l end) = None.
Proof. reflexivity. Qed.

(** *** source order of the client's registration ceremony (lists regenerated from passkey-client/src/lib.rs and
    passkey-authenticator/src on every run): every run of the model's [register] performs its effects in the order of
    [Client::register] with [Authenticator::make_credential] expanded to its own source skeleton - the client data is
    typed webauthn.create and hashed before the authenticator is asked, the attestation object is assembled from the
    four constants after it answered, and the save is the authenticator's last effect *)
From Coq Require Import String.
From PK Require Auth.SkeletonFacts Auth.ClientSkeletonFacts Auth.ClientSource Auth.gen.ClientSkeleton Auth.gen.Skeleton.
Theorem c02_client_register_in_source_order : forall c domain origin q cd script,
  SkeletonFacts.subseq (map (fun ea : eff * answer => SkeletonFacts.kind (fst ea)) (fst (interp (Client.register c domain origin q cd) script)))
                       (ClientSkeletonFacts.cskeleton ClientSkeleton.SRC_CLIENT_REGISTER).
Proof. exact ClientSkeletonFacts.client_register_effects_in_source_order. Qed.
Theorem c02_client_register_source_is_the_modelled_one :
  ClientSkeleton.SRC_CLIENT_REGISTER = ClientSource.EXP_CLIENT_REGISTER.
Proof. exact ClientSource.src_client_register_order. Qed.
Theorem c02_client_register_source_facts :
  (OrderList.before "TypeCreate" "MakeCredential" ClientSkeleton.SRC_CLIENT_REGISTER = true
  /\ OrderList.first_pos "TypeGet" ClientSkeleton.SRC_CLIENT_REGISTER = None
  /\ OrderList.before "ClientDataHash" "MakeCredential" ClientSkeleton.SRC_CLIENT_REGISTER = true
  /\ OrderList.before "MakeCredential" "Str fmt" ClientSkeleton.SRC_CLIENT_REGISTER = true
  /\ OrderList.before "Str fmt" "Str none" ClientSkeleton.SRC_CLIENT_REGISTER = true
  /\ OrderList.before "Str attStmt" "Str authData" ClientSkeleton.SRC_CLIENT_REGISTER = true
  /\ OrderList.before "MakeCredential" "PubKeyDer" ClientSkeleton.SRC_CLIENT_REGISTER = true
  /\ OrderList.first_pos "GetAssertion" ClientSkeleton.SRC_CLIENT_REGISTER = None
  /\ last Skeleton.SRC_MAKE_CREDENTIAL "" = "Save")%string.
Proof. vm_compute. repeat split. Qed.

Print Assumptions c02_run_shape.
Print Assumptions c02_client_data.
Print Assumptions c02_json_string_round_trip.
Print Assumptions c02_attestation_object.
Print Assumptions c02_authenticator_data.
Print Assumptions c02_ids_and_public_key.
Print Assumptions c02_algorithm.
Print Assumptions c02_algorithm_is_first_supported.
Print Assumptions c02_no_supported_algorithm.
Print Assumptions c02_no_supported_algorithm_store.
Print Assumptions c02_no_supported_algorithm_status.
Print Assumptions c02_no_supported_means.
Print Assumptions c02_one_save_one_key.
Print Assumptions c02_save_after_fallible_steps.
Print Assumptions c02_stored_credential.
Print Assumptions c02_randomness.
Print Assumptions c02_id_length.
Print Assumptions c02_id_length_clamped.
Print Assumptions c02_store_step.
Print Assumptions c02_error_leaves_store.
Print Assumptions c02_sequences.
Print Assumptions c02_client_register_in_source_order.
Print Assumptions c02_client_register_source_is_the_modelled_one.
Print Assumptions c02_client_register_source_facts.
