(** C01 - RP ID is bound to the origin at a label boundary and is a registrable domain
    (RpIdVerifier level; the Client::register/authenticate clause is observed end to end by the
    correspondence run and will be proved on the ceremony model).
    Statements only: each is closed by [exact] of a lemma proved in RpId/RpIdFacts.v.
    The code model is RpId/RpIdModel.v; "registrable" is the publicsuffix.org algorithm of Psl/PslSpec.v
    on the rules regenerated from public_suffix_list.dat. *)
From PK Require Import Lib.Bytes Psl.PslSpec Psl.PslModel Psl.PslShipped RpId.RpIdModel RpId.RpIdCheck RpId.RpIdFacts.
Open Scope N_scope.

(** (1) soundness for EVERY provider, every answer of the idna crate ([puny], [to_ascii]), both settings,
    web and Android origins, all byte strings: an accepted pair has a host; the answer is exactly the
    effective RP ID; it is the host, or what follows one of the host's dots, or - the part
    [is_suffix_at_label_boundary] deliberately leaves to the provider - a string suffix of the host that
    itself starts with a dot; and either this is the enabled exception for the literal host "localhost",
    or the origin (if a web origin) is https and the provider accepted the canonical ASCII form
    [to_ascii r] of the RP ID. *)
Theorem c01_assert_domain_sound : forall allow prov puny to_ascii o rp r,
  assert_domain allow prov puny to_ascii o rp = inl r ->
  exists h, host_of o = Some h /\ effective o rp = Some r /\
    (h = r \/ (exists p, h = p ++ DOT :: r) \/ (starts_with_dot r = true /\ exists p, h = p ++ r)) /\
    ((allow = true /\ is_web o = true /\ r = LOCALHOST /\ host_of o = Some LOCALHOST) \/
     ((is_web o = true -> eq_ignore_ascii_case (scheme_of o) HTTPS = true) /\
      exists a, to_ascii r = Some a /\ prov a <> None)).
Proof. exact assert_domain_sound. Qed.

(** (2) for a provider that refuses names with an empty label, asked about an ASCII form that keeps a
    leading dot, only true label boundaries remain *)
Theorem c01_assert_domain_sound_label_boundary : forall allow prov puny to_ascii o rp r,
  (forall x, has_empty_label x = true -> prov x = None) ->
  (forall x a, to_ascii x = Some a -> starts_with_dot x = true -> has_empty_label a = true) ->
  assert_domain allow prov puny to_ascii o rp = inl r ->
  exists h, host_of o = Some h /\ effective o rp = Some r /\
    (h = r \/ exists p, h = p ++ DOT :: r) /\
    ((allow = true /\ is_web o = true /\ r = LOCALHOST /\ host_of o = Some LOCALHOST) \/
     ((is_web o = true -> eq_ignore_ascii_case (scheme_of o) HTTPS = true) /\
      exists a, to_ascii r = Some a /\ prov a <> None)).
Proof. exact assert_domain_sound_label_boundary. Qed.

(** ... and the default provider is one (by C10's [etld1_correct]) *)
Theorem c01_default_provider_rejects_empty_labels : forall x,
  has_empty_label x = true -> default_provider x = None.
Proof. exact default_provider_rejects_empty_labels. Qed.

Theorem c01_default_provider_is_the_list : forall x, default_provider x = psl_etld1 RULES x.
Proof. exact default_provider_spec. Qed.

Theorem c01_assert_domain_sound_default : forall allow puny to_ascii o rp r,
  (forall x a, to_ascii x = Some a -> starts_with_dot x = true -> has_empty_label a = true) ->
  assert_domain allow default_provider puny to_ascii o rp = inl r ->
  exists h, host_of o = Some h /\ effective o rp = Some r /\
    (h = r \/ exists p, h = p ++ DOT :: r) /\
    ((allow = true /\ is_web o = true /\ r = LOCALHOST /\ host_of o = Some LOCALHOST) \/
     ((is_web o = true -> eq_ignore_ascii_case (scheme_of o) HTTPS = true) /\
      exists a, to_ascii r = Some a /\ default_provider a <> None)).
Proof. exact assert_domain_sound_default. Qed.

(** (3) with the default provider, for an accepted RP ID (outside the localhost exception) the canonical
    ASCII form is a registrable domain under the publicsuffix.org algorithm on the shipped rule file -
    every IDN rule in its punycode form included: no empty label, strictly more labels than its public
    suffix, not a public suffix.  So an upper-case or Unicode spelling of a public suffix is refused. *)
Theorem c01_assert_domain_registrable_default : forall allow puny to_ascii o rp r,
  assert_domain allow default_provider puny to_ascii o rp = inl r ->
  (allow = true /\ is_web o = true /\ r = LOCALHOST /\ host_of o = Some LOCALHOST) \/
  exists a, to_ascii r = Some a /\
   (has_empty_label a = false /\
    (psl_len beq RULES (dom_labels a) < length (dom_labels a))%nat /\
    psl_is_suffix RULES a = false /\
    exists e, psl_etld1 RULES a = Some e).
Proof. exact assert_domain_registrable_default. Qed.

(** ... and for an RP ID that is its own ASCII form (lower-case ASCII, punycode) it is the RP ID itself *)
Theorem c01_assert_domain_registrable_default_ascii : forall allow puny to_ascii o rp r,
  to_ascii r = Some r ->
  assert_domain allow default_provider puny to_ascii o rp = inl r ->
  (allow = true /\ is_web o = true /\ r = LOCALHOST /\ host_of o = Some LOCALHOST) \/
  (has_empty_label r = false /\
   (psl_len beq RULES (dom_labels r) < length (dom_labels r))%nat /\
   psl_is_suffix RULES r = false /\
   exists e, psl_etld1 RULES r = Some e).
Proof. exact assert_domain_registrable_default_ascii. Qed.

(** (4) the converse on well-formed input (the theorems above are not satisfied by refusing everything) *)
Theorem c01_assert_domain_complete : forall allow prov puny to_ascii o rp h r,
  host_of o = Some h -> effective o rp = Some r ->
  (h = r \/ exists p, h = p ++ DOT :: r) ->
  (is_web o = true -> eq_ignore_ascii_case (scheme_of o) HTTPS = true) ->
  (exists a, to_ascii r = Some a /\ prov a <> None) -> decode_host puny r = true -> r <> LOCALHOST ->
  assert_domain allow prov puny to_ascii o rp = inl r.
Proof. exact assert_domain_complete. Qed.

Theorem c01_assert_domain_complete_localhost : forall prov puny to_ascii scheme rp,
  rp = None \/ rp = Some LOCALHOST ->
  assert_domain true prov puny to_ascii (Web scheme (Some LOCALHOST)) rp = inl LOCALHOST.
Proof. exact assert_domain_complete_localhost. Qed.

(** (5) "label boundary" said with labels: the labels of [r] are the last labels of [h] (this is the
    form the run-time oracle evaluates) *)
Theorem c01_boundary_is_label_suffix : forall h r,
  (h = r \/ exists p, h = p ++ DOT :: r) <-> prefix beq (dom_labels r) (dom_labels h) = true.
Proof. exact boundary_iff_labels. Qed.

(** (6) the run-time oracle [c01_ok] is true on every answer of the model, for the four providers of
    the correspondence run, whenever the crate's ASCII form is the canonical form given to the oracle
    and keeps a leading dot *)
Theorem c01_oracle_on_model : forall allow pk puny to_ascii o rp canon,
  (forall r a, effective o rp = Some r -> to_ascii r = Some a ->
     a = canon /\ (starts_with_dot r = true -> has_empty_label a = true)) ->
  c01_ok allow pk o rp canon (res_code (assert_domain allow (provider_of pk) puny to_ascii o rp)) = true.
Proof. exact oracle_on_model. Qed.

(** one example per accepting branch (strings as bytes) and the three repaired defects.
    ex = "example.com", wex = "www.example.com", evil = "evilexample.com", cn = "xn--55qx5d.cn" *)
Definition ex : bytes := [101;120;97;109;112;108;101;46;99;111;109].
Definition wex : bytes := [119;119;119;46] ++ ex.
Definition evil : bytes := [101;118;105;108] ++ ex.
Definition cn : bytes := [120;110;45;45;53;53;113;120;53;100;46;99;110].
Definition HTTP : bytes := [104;116;116;112].
Definition yes (_ : bytes) := true.
Definition same (x : bytes) := Some x.   (* an RP ID that is its own ASCII form *)

Example c01_ex_web_no_rp : assert_domain false default_provider yes same (Web HTTPS (Some wex)) None = inl wex.
Proof. vm_compute. reflexivity. Qed.
Example c01_ex_web_rp_is_host : assert_domain false default_provider yes same (Web HTTPS (Some ex)) (Some ex) = inl ex.
Proof. vm_compute. reflexivity. Qed.
Example c01_ex_web_rp_label_suffix : assert_domain false default_provider yes same (Web HTTPS (Some wex)) (Some ex) = inl ex.
Proof. vm_compute. reflexivity. Qed.
Example c01_ex_localhost : assert_domain true default_provider yes same (Web HTTP (Some LOCALHOST)) None = inl LOCALHOST.
Proof. vm_compute. reflexivity. Qed.
Example c01_ex_android : assert_domain false default_provider yes same (Android wex) (Some ex) = inl ex.
Proof. vm_compute. reflexivity. Qed.
(** F1: a character-level suffix that is not label aligned *)
Example c01_ex_not_label_aligned :
  assert_domain false default_provider yes same (Web HTTPS (Some evil)) (Some ex) = inr OriginRpMissmatch.
Proof. vm_compute. reflexivity. Qed.
(** F2: an IDN public suffix in punycode form *)
Example c01_ex_idn_public_suffix :
  assert_domain false default_provider yes same (Web HTTPS (Some ([97;46] ++ cn))) (Some cn) = inr InvalidRpId.
Proof. vm_compute. reflexivity. Qed.
(** F3: foo.localhost with RP ID localhost *)
Example c01_ex_sub_localhost :
  assert_domain true default_provider yes same (Web HTTP (Some ([102;111;111;46] ++ LOCALHOST))) (Some LOCALHOST) = inr InvalidRpId.
Proof. vm_compute. reflexivity. Qed.
(** F13: an upper-case / Unicode spelling of a public suffix ("CO.UK" canonical form "co.uk"; "公司.cn"
    canonical form "xn--55qx5d.cn") on an Android origin *)
Example c01_ex_uppercase_public_suffix :
  assert_domain false default_provider yes (fun _ => Some [99;111;46;117;107]) (Android [67;79;46;85;75]) None = inr InvalidRpId.
Proof. vm_compute. reflexivity. Qed.
Example c01_ex_unicode_public_suffix :
  assert_domain false default_provider yes (fun _ => Some cn)
    (Android ([115;105;116;101;46] ++ [229;133;172;229;143;184;46;99;110])) (Some [229;133;172;229;143;184;46;99;110]) = inr InvalidRpId.
Proof. vm_compute. reflexivity. Qed.
(** a provider that accepts everything lets ".com" through for "example.com": the third disjunct of (1) is real *)
Example c01_ex_leading_dot_lax_provider :
  assert_domain false (fun d => Some d) yes same (Web HTTPS (Some ex)) (Some [46;99;111;109]) = inl [46;99;111;109].
Proof. vm_compute. reflexivity. Qed.

(** *** the client ceremonies: a rejected pair never reaches the authenticator, an accepted one is checked first

    [Auth/Client.v]'s ceremonies take the verifier's verdict as [domain]. With a rejection, for every request,
    client-data mode, configuration and answer script, the ceremony performs exactly the capability queries of
    [get_info] and returns the verifier's error: no lookup, no user interaction, no key, no store write. *)
From Coq Require Import String.
From PK Require Auth.Client Auth.ClientRefusal Auth.OrderList Auth.gen.ClientSkeleton Auth.ClientSource.
Open Scope string_scope.
Theorem c01_rejected_pair_never_reaches_the_authenticator :
  forall c e origin (q : Client.reg_request) (q2 : Client.auth_request) cd script,
  forallb (fun ea : Prog.eff * Prog.answer => ClientRefusal.is_query (fst ea))
          (fst (Prog.interp (Client.register c (Prog.Err e) origin q cd) script)) = true
  /\ forallb (fun ea : Prog.eff * Prog.answer => ClientRefusal.is_query (fst ea))
             (fst (Prog.interp (Client.authenticate c (Prog.Err e) origin q2 cd) script)) = true
  /\ (forall r, snd (Prog.interp (Client.register c (Prog.Err e) origin q cd) script) = Some r -> r = Prog.Err e)
  /\ (forall r, snd (Prog.interp (Client.authenticate c (Prog.Err e) origin q2 cd) script) = Some r -> r = Prog.Err e).
Proof. exact ClientRefusal.refused_domain_never_reaches_the_authenticator. Qed.

(** the source text of the client, as it is now (lists regenerated from passkey-client/src/lib.rs on every run): the
    RP ID check precedes the client data and the authenticator call in both ceremonies, and the verifier's functions
    check in the order the RP ID model was written from *)
Theorem c01_client_source_is_the_modelled_one :
  ClientSkeleton.SRC_CLIENT_REGISTER = ClientSource.EXP_CLIENT_REGISTER
  /\ ClientSkeleton.SRC_CLIENT_AUTHENTICATE = ClientSource.EXP_CLIENT_AUTHENTICATE
  /\ ClientSkeleton.SRC_ASSERT_DOMAIN = ClientSource.EXP_ASSERT_DOMAIN
  /\ ClientSkeleton.SRC_ASSERT_WEB_RP_ID = ClientSource.EXP_ASSERT_WEB_RP_ID
  /\ ClientSkeleton.SRC_ASSERT_VALID_RP_ID = ClientSource.EXP_ASSERT_VALID_RP_ID
  /\ ClientSkeleton.SRC_IS_REGISTRABLE = ClientSource.EXP_IS_REGISTRABLE
  /\ ClientSkeleton.SRC_IS_VALID_RP_ID = ClientSource.EXP_IS_VALID_RP_ID
  /\ ClientSkeleton.SRC_ASSERT_ANDROID_RP_ID = ClientSource.EXP_ASSERT_ANDROID_RP_ID.
Proof.
  exact (conj ClientSource.src_client_register_order (conj ClientSource.src_client_authenticate_order
        (conj ClientSource.src_assert_domain_order (conj ClientSource.src_assert_web_rp_id_order
        (conj ClientSource.src_assert_valid_rp_id_order (conj ClientSource.src_is_registrable_order
        (conj ClientSource.src_is_valid_rp_id_order ClientSource.src_assert_android_rp_id_order))))))).
Qed.
Theorem c01_rp_id_check_precedes_the_authenticator :
  OrderList.before "AssertDomain" "ClientDataJson" ClientSkeleton.SRC_CLIENT_REGISTER = true
  /\ OrderList.before "AssertDomain" "MakeCredential" ClientSkeleton.SRC_CLIENT_REGISTER = true
  /\ OrderList.before "AssertDomain" "ClientDataJson" ClientSkeleton.SRC_CLIENT_AUTHENTICATE = true
  /\ OrderList.before "AssertDomain" "GetAssertion" ClientSkeleton.SRC_CLIENT_AUTHENTICATE = true.
Proof. vm_compute. repeat split. Qed.
Theorem c01_verifier_source_order :
  OrderList.before "OriginDomain" "SuffixAtLabel" ClientSkeleton.SRC_ASSERT_WEB_RP_ID = true
  /\ OrderList.before "SuffixAtLabel" "AssertValid" ClientSkeleton.SRC_ASSERT_WEB_RP_ID = true
  /\ OrderList.before "Err OriginRpMissmatch" "Err InvalidRpId" ClientSkeleton.SRC_ASSERT_WEB_RP_ID = true
  /\ OrderList.before "AssertValid" "Scheme" ClientSkeleton.SRC_ASSERT_WEB_RP_ID = true
  /\ OrderList.before "Str https" "Err UnprotectedOrigin" ClientSkeleton.SRC_ASSERT_WEB_RP_ID = true
  /\ OrderList.before "Str localhost" "AllowsLocalhost" ClientSkeleton.SRC_ASSERT_VALID_RP_ID = true
  /\ OrderList.before "AllowsLocalhost" "IsRegistrable" ClientSkeleton.SRC_ASSERT_VALID_RP_ID = true
  /\ OrderList.before "DecodeHost" "ToAscii" ClientSkeleton.SRC_IS_REGISTRABLE = true
  /\ OrderList.before "ToAscii" "Etld1" ClientSkeleton.SRC_IS_REGISTRABLE = true
  /\ OrderList.before "SuffixAtLabel" "IsRegistrable" ClientSkeleton.SRC_ASSERT_ANDROID_RP_ID = true.
Proof. exact ClientSource.rp_id_verifier_source_order_facts. Qed.

Print Assumptions c01_assert_domain_sound.
Print Assumptions c01_assert_domain_sound_label_boundary.
Print Assumptions c01_default_provider_rejects_empty_labels.
Print Assumptions c01_default_provider_is_the_list.
Print Assumptions c01_assert_domain_sound_default.
Print Assumptions c01_assert_domain_registrable_default.
Print Assumptions c01_assert_domain_registrable_default_ascii.
Print Assumptions c01_assert_domain_complete.
Print Assumptions c01_assert_domain_complete_localhost.
Print Assumptions c01_boundary_is_label_suffix.
Print Assumptions c01_oracle_on_model.
Print Assumptions c01_rejected_pair_never_reaches_the_authenticator.
Print Assumptions c01_client_source_is_the_modelled_one.
Print Assumptions c01_rp_id_check_precedes_the_authenticator.
Print Assumptions c01_verifier_source_order.
