(** C01 - RP ID is bound to the origin at a label boundary and is a registrable domain
    (RpIdVerifier level; the Client::register/authenticate clause is observed end to end by the
    correspondence run and will be proved on the ceremony model).
    Statements only: each is closed by [exact] of a lemma proved in RpId/RpIdFacts.v.
    The code model is RpId/RpIdModel.v; "registrable" is the publicsuffix.org algorithm of Psl/PslSpec.v
    on the rules regenerated from public_suffix_list.dat. *)
From PK Require Import Lib.Bytes Psl.PslSpec Psl.PslModel Psl.PslShipped RpId.RpIdModel RpId.RpIdCheck RpId.RpIdFacts.
Open Scope N_scope.

(** (1) soundness for EVERY provider, every answer of the idna crate ([puny], [to_ascii]), both settings,
    web and Android origins, all byte strings: an accepted pair has a host; the answer is exactly the
    effective RP ID; it is the host, or what follows one of the host's dots, or - the part
    [is_suffix_at_label_boundary] deliberately leaves to the provider - a string suffix of the host that
    itself starts with a dot; and either this is the enabled exception for the literal host "localhost",
    or the origin (if a web origin) is https and the provider accepted the canonical ASCII form
    [to_ascii r] of the RP ID. *)
Theorem c01_assert_domain_sound : forall allow prov puny to_ascii o rp r,
  assert_domain allow prov puny to_ascii o rp = inl r ->
  exists h, host_of o = Some h /\ effective o rp = Some r /\
    (h = r \/ (exists p, h = p ++ DOT :: r) \/ (starts_with_dot r = true /\ exists p, h = p ++ r)) /\
    ((allow = true /\ is_web o = true /\ r = LOCALHOST /\ host_of o = Some LOCALHOST) \/
     ((is_web o = true -> eq_ignore_ascii_case (scheme_of o) HTTPS = true) /\
      exists a, to_ascii r = Some a /\ prov a <> None)).
Proof. exact assert_domain_sound. Qed.

(** (2) for a provider that refuses names with an empty label, asked about an ASCII form that keeps a
    leading dot, only true label boundaries remain *)
Theorem c01_assert_domain_sound_label_boundary : forall allow prov puny to_ascii o rp r,
  (forall x, has_empty_label x = true -> prov x = None) ->
  (forall x a, to_ascii x = Some a -> starts_with_dot x = true -> has_empty_label a = true) ->
  assert_domain allow prov puny to_ascii o rp = inl r ->
  exists h, host_of o = Some h /\ effective o rp = Some r /\
    (h = r \/ exists p, h = p ++ DOT :: r) /\
    ((allow = true /\ is_web o = true /\ r = LOCALHOST /\ host_of o = Some LOCALHOST) \/
     ((is_web o = true -> eq_ignore_ascii_case (scheme_of o) HTTPS = true) /\
      exists a, to_ascii r = Some a /\ prov a <> None)).
Proof. exact assert_domain_sound_label_boundary. Qed.

(** ... and the default provider is one (by C10's [etld1_correct]) *)
Theorem c01_default_provider_rejects_empty_labels : forall x,
  has_empty_label x = true -> default_provider x = None.
Proof. exact default_provider_rejects_empty_labels. Qed.

Theorem c01_default_provider_is_the_list : forall x, default_provider x = psl_etld1 RULES x.
Proof. exact default_provider_spec. Qed.

Theorem c01_assert_domain_sound_default : forall allow puny to_ascii o rp r,
  (forall x a, to_ascii x = Some a -> starts_with_dot x = true -> has_empty_label a = true) ->
  assert_domain allow default_provider puny to_ascii o rp = inl r ->
  exists h, host_of o = Some h /\ effective o rp = Some r /\
    (h = r \/ exists p, h = p ++ DOT :: r) /\
    ((allow = true /\ is_web o = true /\ r = LOCALHOST /\ host_of o = Some LOCALHOST) \/
     ((is_web o = true -> eq_ignore_ascii_case (scheme_of o) HTTPS = true) /\
      exists a, to_ascii r = Some a /\ default_provider a <> None)).
Proof. exact assert_domain_sound_default. Qed.

(** (3) with the default provider, for an accepted RP ID (outside the localhost exception) the canonical
    ASCII form is a registrable domain under the publicsuffix.org algorithm on the shipped rule file -
    every IDN rule in its punycode form included: no empty label, strictly more labels than its public
    suffix, not a public suffix.  So an upper-case or Unicode spelling of a public suffix is refused. *)
Theorem c01_assert_domain_registrable_default : forall allow puny to_ascii o rp r,
  assert_domain allow default_provider puny to_ascii o rp = inl r ->
  (allow = true /\ is_web o = true /\ r = LOCALHOST /\ host_of o = Some LOCALHOST) \/
  exists a, to_ascii r = Some a /\
   (has_empty_label a = false /\
    (psl_len beq RULES (dom_labels a) < length (dom_labels a))%nat /\
    psl_is_suffix RULES a = false /\
    exists e, psl_etld1 RULES a = Some e).
Proof. exact assert_domain_registrable_default. Qed.

(** ... and for an RP ID that is its own ASCII form (lower-case ASCII, punycode) it is the RP ID itself *)
Theorem c01_assert_domain_registrable_default_ascii : forall allow puny to_ascii o rp r,
  to_ascii r = Some r ->
  assert_domain allow default_provider puny to_ascii o rp = inl r ->
  (allow = true /\ is_web o = true /\ r = LOCALHOST /\ host_of o = Some LOCALHOST) \/
  (has_empty_label r = false /\
   (psl_len beq RULES (dom_labels r) < length (dom_labels r))%nat /\
   psl_is_suffix RULES r = false /\
   exists e, psl_etld1 RULES r = Some e).
Proof. exact assert_domain_registrable_default_ascii. Qed.

(** (4) the converse on well-formed input (the theorems above are not satisfied by refusing everything) *)
Theorem c01_assert_domain_complete : forall allow prov puny to_ascii o rp h r,
  host_of o = Some h -> effective o rp = Some r ->
  (h = r \/ exists p, h = p ++ DOT :: r) ->
  (is_web o = true -> eq_ignore_ascii_case (scheme_of o) HTTPS = true) ->
  (exists a, to_ascii r = Some a /\ prov a <> None) -> decode_host puny r = true -> r <> LOCALHOST ->
  assert_domain allow prov puny to_ascii o rp = inl r.
Proof. exact assert_domain_complete. Qed.

Theorem c01_assert_domain_complete_localhost : forall prov puny to_ascii scheme rp,
  rp = None \/ rp = Some LOCALHOST ->
  assert_domain true prov puny to_ascii (Web scheme (Some LOCALHOST)) rp = inl LOCALHOST.
Proof. exact assert_domain_complete_localhost. Qed.

(** (5) "label boundary" said with labels: the labels of [r] are the last labels of [h] (this is the
    form the run-time oracle evaluates) *)
Theorem c01_boundary_is_label_suffix : forall h r,
  (h = r \/ exists p, h = p ++ DOT :: r) <-> prefix beq (dom_labels r) (dom_labels h) = true.
Proof. exact boundary_iff_labels. Qed.

(** (6) the run-time oracle [c01_ok] is true on every answer of the model, for the four providers of
    the correspondence run, whenever the crate's ASCII form is the canonical form given to the oracle
    and keeps a leading dot *)
Theorem c01_oracle_on_model : forall allow pk puny to_ascii o rp canon,
  (forall r a, effective o rp = Some r -> to_ascii r = Some a ->
     a = canon /\ (starts_with_dot r = true -> has_empty_label a = true)) ->
  c01_ok allow pk o rp canon (res_code (assert_domain allow (provider_of pk) puny to_ascii o rp)) = true.
Proof. exact oracle_on_model. Qed.

(** one example per accepting branch (strings as bytes) and the three repaired defects.
    ex = "example.com", wex = "www.example.com", evil = "evilexample.com", cn = "xn--55qx5d.cn" *)
Definition ex : bytes := [101;120;97;109;112;108;101;46;99;111;109].
Definition wex : bytes := [119;119;119;46] ++ ex.
Definition evil : bytes := [101;118;105;108] ++ ex.
Definition cn : bytes := [120;110;45;45;53;53;113;120;53;100;46;99;110].
Definition HTTP : bytes := [104;116;116;112].
Definition yes (_ : bytes) := true.
Definition same (x : bytes) := Some x.   (* an RP ID that is its own ASCII form *)

Example c01_ex_web_no_rp : assert_domain false default_provider yes same (Web HTTPS (Some wex)) None = inl wex.
Proof. vm_compute. reflexivity. Qed.
Example c01_ex_web_rp_is_host : assert_domain false default_provider yes same (Web HTTPS (Some ex)) (Some ex) = inl ex.
Proof. vm_compute. reflexivity. Qed.
Example c01_ex_web_rp_label_suffix : assert_domain false default_provider yes same (Web HTTPS (Some wex)) (Some ex) = inl ex.
Proof. vm_compute. reflexivity. Qed.
Example c01_ex_localhost : assert_domain true default_provider yes same (Web HTTP (Some LOCALHOST)) None = inl LOCALHOST.
Proof. vm_compute. reflexivity. Qed.
Example c01_ex_android : assert_domain false default_provider yes same (Android wex) (Some ex) = inl ex.
Proof. vm_compute. reflexivity. Qed.
(** F1: a character-level suffix that is not label aligned *)
Example c01_ex_not_label_aligned :
  assert_domain false default_provider yes same (Web HTTPS (Some evil)) (Some ex) = inr OriginRpMissmatch.
Proof. vm_compute. reflexivity. Qed.
(** F2: an IDN public suffix in punycode form *)
Example c01_ex_idn_public_suffix :
  assert_domain false default_provider yes same (Web HTTPS (Some ([97;46] ++ cn))) (Some cn) = inr InvalidRpId.
Proof. vm_compute. reflexivity. Qed.
(** F3: foo.localhost with RP ID localhost *)
Example c01_ex_sub_localhost :
  assert_domain true default_provider yes same (Web HTTP (Some ([102;111;111;46] ++ LOCALHOST))) (Some LOCALHOST) = inr InvalidRpId.
Proof. vm_compute. reflexivity. Qed.
(** F13: an upper-case / Unicode spelling of a public suffix ("CO.UK" canonical form "co.uk"; "公司.cn"
    canonical form "xn--55qx5d.cn") on an Android origin *)
Example c01_ex_uppercase_public_suffix :
  assert_domain false default_provider yes (fun _ => Some [99;111;46;117;107]) (Android [67;79;46;85;75]) None = inr InvalidRpId.
Proof. vm_compute. reflexivity. Qed.
Example c01_ex_unicode_public_suffix :
  assert_domain false default_provider yes (fun _ => Some cn)
    (Android ([115;105;116;101;46] ++ [229;133;172;229;143;184;46;99;110])) (Some [229;133;172;229;143;184;46;99;110]) = inr InvalidRpId.
Proof. vm_compute. reflexivity. Qed.
(** a provider that accepts everything lets ".com" through for "example.com": the third disjunct of (1) is real *)
Example c01_ex_leading_dot_lax_provider :
  assert_domain false (fun d => Some d) yes same (Web HTTPS (Some ex)) (Some [46;99;111;109]) = inl [46;99;111;109].
Proof. vm_compute. reflexivity. Qed.

Print Assumptions c01_assert_domain_sound.
Print Assumptions c01_assert_domain_sound_label_boundary.
Print Assumptions c01_default_provider_rejects_empty_labels.
Print Assumptions c01_default_provider_is_the_list.
Print Assumptions c01_assert_domain_sound_default.
Print Assumptions c01_assert_domain_registrable_default.
Print Assumptions c01_assert_domain_registrable_default_ascii.
Print Assumptions c01_assert_domain_complete.
Print Assumptions c01_assert_domain_complete_localhost.
Print Assumptions c01_boundary_is_label_suffix.
Print Assumptions c01_oracle_on_model.
