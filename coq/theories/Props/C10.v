(** C10 - Public-suffix lookups agree with the shipped list under the PSL algorithm.
    Statements only: each is closed by [exact] of a lemma proved in Psl/PslWalk.v, Psl/PslFacts.v or
    Psl/PslData.v.  The algorithm is Psl/PslSpec.v; the code model is Psl/PslModel.v; TABLE and RULES
    are regenerated from tld_list.rs and public_suffix_list.dat on every run. *)
From PK Require Import Lib.Bytes Psl.PslSpec Psl.PslModel Psl.PslWalk Psl.PslFacts Psl.PslShipped Psl.PslData.
From Coq Require Import Bool.
Open Scope N_scope.

(** (1) generic, unbounded: for every label type, every trie whose siblings carry distinct labels and
    every list of labels, the table walk of lib.rs (label level) computes the publicsuffix.org
    algorithm on the rules the trie represents. *)
Theorem c10_walk_correct :
  forall (L : Type) (eqb : L -> L -> bool), (forall a b, reflect (a = b) (eqb a b)) ->
  forall (cs : list (@PslWalk.trie L)) (d : list L), wf cs ->
    olen (PslWalk.walk eqb cs false d 0 None) = psl_len eqb (forest_rules cs) d.
Proof. exact @walk_correct. Qed.

(** the algorithm does not depend on the order or multiplicity of the rules (so the translator may
    sort the rule file and drop duplicates) *)
Theorem c10_spec_order_irrelevant :
  forall (L : Type) (eqb : L -> L -> bool) (R R' : list (@grule L)) d,
    (forall r, In r R <-> In r R') -> psl_len eqb R d = psl_len eqb R' d.
Proof. exact @psl_len_ext. Qed.

(** (2) the binary search: on a range that a trie represents with strictly increasing labels it never
    panics and finds what the linear [lookup] finds *)
Theorem c10_find_correct : forall T cs lo hi l, repr T cs lo hi -> swf cs ->
  (find T l lo hi = Val None /\ PslWalk.lookup beq l cs = None)
  \/ (exists f ty w cs' lo' hi' tyN,
        find T l lo hi = Val (Some f) /\ PslWalk.lookup beq l cs = Some (Node l ty w cs') /\
        node_info T f = Val (lo', hi', tyN, w) /\ ty = ntype_of T tyN /\ repr T cs' lo' hi' /\ swf cs').
Proof. exact find_correct. Qed.

(** (3) the index/slice model on byte strings = the label-level loop on [split '.'], for every table
    and every string (no hypothesis): same panics, and otherwise the last [k] labels of the input *)
Theorem c10_string_label_refinement : forall T d,
  public_suffix T d =
    match walk_tab T 0 (NUM_TLD T) false (dom_labels d) 0 None with
    | Panic => Panic
    | Val (Some O) => Panic
    | Val o => Val (last_labels (olen o) d)
    end.
Proof. exact string_label_refinement. Qed.

(** the fast constant arrays of the model are the list literals of the generated file *)
Theorem c10_array_index : forall (A : Type) (l : list A) i,
  index (arr_of_list l) i = match nth_error l (N.to_nat i) with Some x => Val x | None => Panic end.
Proof. exact @index_of_list. Qed.
Theorem c10_array_slice : forall (l : bytes) offset length,
  slice (arr_of_list l) offset length =
    match slice_from l (N.to_nat offset) with Val t => slice_to t (N.to_nat length) | Panic => Panic end.
Proof. exact slice_of_list. Qed.

(** (4) the shipped table is the shipped list (finite, computed): it decodes with every index in
    range to a trie with strictly increasing siblings, without a top-level exception node, whose rules
    are exactly the rules of public_suffix_list.dat *)
Theorem c10_table_is_list :
  exists cs, repr TABLE cs 0 (NUM_TLD TABLE) /\ swf cs /\ no_top_exc cs = true /\ forest_rules cs = RULES.
Proof. exact table_is_list_meaning. Qed.

Theorem c10_table_consts_ok : consts_ok_b = true.
Proof. exact table_consts_ok. Qed.

Theorem c10_no_nested_exceptions : no_nested_exceptions_b = true.
Proof. exact no_nested_exceptions. Qed.

(** (5) headline: for EVERY byte string the model of the code returns what the algorithm returns *)
Theorem c10_public_suffix_correct : forall d, public_suffix TABLE d = Val (psl_suffix RULES d).
Proof. exact public_suffix_correct. Qed.

Theorem c10_etld1_correct : forall d,
  effective_tld_plus_one TABLE d =
    Val (match psl_etld1 RULES d with
         | Some r => inl r
         | None => inr (if empty_label_guard d then EmptyLabel else CannotDeriveETldPlus1)
         end).
Proof. exact etld1_correct. Qed.

Theorem c10_is_etld_correct : forall d, d <> [] -> is_effective_tld TABLE d = Val (psl_is_suffix RULES d).
Proof. exact is_etld_correct. Qed.

(** the one input where the code and the natural reading differ: [is_effective_tld("")] is [true] *)
Theorem c10_is_etld_empty_name : is_effective_tld TABLE [] = Val true.
Proof. exact is_etld_empty_name. Qed.

Theorem c10_no_panic : forall d,
  public_suffix TABLE d <> Panic /\ effective_tld_plus_one TABLE d <> Panic /\ is_effective_tld TABLE d <> Panic.
Proof. exact no_panic. Qed.

(** (6) shape of the answers: the suffix and the eTLD+1 are the input or what follows one of its
    dots; the eTLD+1 is one non-empty dot-free label, a dot, and the suffix; names with an empty label
    have no eTLD+1 *)
Theorem c10_suffix_shape : forall d,
  (psl_suffix RULES d = d \/ exists p, d = p ++ DOT :: psl_suffix RULES d) /\
  dom_labels (psl_suffix RULES d) = firstn (psl_len beq RULES (dom_labels d)) (dom_labels d).
Proof. exact suffix_shape. Qed.

Theorem c10_etld1_shape : forall d r, psl_etld1 RULES d = Some r ->
  has_empty_label d = false /\
  (r = d \/ exists p, d = p ++ DOT :: r) /\
  (r = psl_suffix RULES d -> False) /\
  (exists l, r = l ++ DOT :: psl_suffix RULES d /\ ~ In DOT l /\ l <> []) /\
  length (dom_labels r) = S (length (dom_labels (psl_suffix RULES d))).
Proof. exact etld1_shape. Qed.

Theorem c10_empty_label_guard : forall d,
  has_empty_label d = match d with [] => true | _ => empty_label_guard d end.
Proof. exact has_empty_label_spec. Qed.

(** examples: a normal rule, a wildcard rule, an exception rule, an IDN rule in punycode, no rule.
    (strings as bytes: "www.example.co.uk", "a.b.kobe.jp", "city.kobe.jp", "a.xn--55qx5d.cn", "foo.invalidtld") *)
Example c10_ex_normal :
  psl_suffix RULES [119;119;119;46;101;120;97;109;112;108;101;46;99;111;46;117;107] = [99;111;46;117;107]
  /\ psl_etld1 RULES [119;119;119;46;101;120;97;109;112;108;101;46;99;111;46;117;107]
     = Some [101;120;97;109;112;108;101;46;99;111;46;117;107].
Proof. vm_compute. split; reflexivity. Qed.
Example c10_ex_wildcard : psl_suffix RULES [97;46;98;46;107;111;98;101;46;106;112] = [98;46;107;111;98;101;46;106;112].
Proof. vm_compute. reflexivity. Qed.
Example c10_ex_exception : psl_suffix RULES [99;105;116;121;46;107;111;98;101;46;106;112] = [107;111;98;101;46;106;112].
Proof. vm_compute. reflexivity. Qed.
Example c10_ex_idn :
  psl_suffix RULES [97;46;120;110;45;45;53;53;113;120;53;100;46;99;110] = [120;110;45;45;53;53;113;120;53;100;46;99;110].
Proof. vm_compute. reflexivity. Qed.
Example c10_ex_implicit_star :
  psl_suffix RULES [102;111;111;46;105;110;118;97;108;105;100;116;108;100] = [105;110;118;97;108;105;100;116;108;100].
Proof. vm_compute. reflexivity. Qed.

Print Assumptions c10_walk_correct.
Print Assumptions c10_spec_order_irrelevant.
Print Assumptions c10_find_correct.
Print Assumptions c10_string_label_refinement.
Print Assumptions c10_array_index.
Print Assumptions c10_array_slice.
Print Assumptions c10_table_is_list.
Print Assumptions c10_table_consts_ok.
Print Assumptions c10_no_nested_exceptions.
Print Assumptions c10_public_suffix_correct.
Print Assumptions c10_etld1_correct.
Print Assumptions c10_is_etld_correct.
Print Assumptions c10_is_etld_empty_name.
Print Assumptions c10_no_panic.
Print Assumptions c10_suffix_shape.
Print Assumptions c10_etld1_shape.
Print Assumptions c10_empty_label_guard.
