(** C11 - discoverability follows the request and the store's capability and is reported truthfully.
    Statements only; proofs are in Auth/C11Facts.v (on top of Auth/StoreFacts.v and Auth/History.v).

    Every theorem is for ALL requests, configurations and answer scripts (every store answer, user
    answer, fault, wrong-shaped answer, and every script that ends early = the ceremony is cancelled
    there) - a superset of the finite product named in the property's quantifier.

    [rk_spec] / [webauthn_rk_mapping] is the hand transcription of WebAuthn L3 5.1.3 ("effective resident
    key requirement") and [disc_spec] / [store_discoverability] the table of the property statement
    ("full: as requested; non-discoverable only: never; forced: always"); [rk_capable d] is the rk option
    of getInfo ([d] is not OnlyNonDiscoverable); [store_events] keeps the store calls (lookups, capability
    queries, saves, updates) and signatures of a trace. *)
From PK Require Import Auth.C11Facts.
Open Scope N_scope.

(** the code's two decision functions are the two specification tables, on the whole (finite) product *)
Theorem c11_map_rk_is_the_webauthn_table : forall sel capable, rk_spec sel capable = Some (map_rk sel capable).
Proof. exact map_rk_is_spec. Qed.

Theorem c11_is_discoverable_is_the_capability_table : forall d rk, disc_spec d rk = Some (is_discoverable d rk).
Proof. exact is_discoverable_is_spec. Qed.

(** the table is a function: no key occurs twice *)
Theorem c11_rk_table_is_a_function :
  NoDup (map (fun row => match row with (a, b, c, _) => (a, b, c) end) webauthn_rk_mapping).
Proof. exact rk_table_keys_unique. Qed.

(** (a) getInfo reports rk exactly when the store's capability is not OnlyNonDiscoverable *)
Theorem c11_get_info_rk : forall c script info,
  snd (interp (get_info c) script) = Some info ->
  exists d rest, fst (interp (get_info c) script) = (EStoreInfo, AInfo d) :: rest /\ i_rk info = rk_capable d.
Proof. exact get_info_rk. Qed.

(** (a) the CTAP2 request [register] issues, for every run: either the run ends before the CTAP2 ceremony
    (only capability queries, never Ok), or it is the three capability queries, then a run of
    [make_credential] on a request for the request's user with up = true and rk = the WebAuthn table applied
    to the selection criteria and the capability answered ([rk_capable d0] = getInfo's rk), then a tail
    that saves nothing *)
Theorem c11_request_issued : forall c domain origin q cd script tr res,
  interp (register c domain origin q cd) script = (tr, res) ->
  (Forall (fun ea => is_info (fst ea) = true) tr /\ wnot_ok res)
  \/ exists d0 uv up q_ctap script_mc tr_mc r_mc tr_fin,
       tr = info_events d0 uv up ++ tr_mc ++ tr_fin
       /\ interp (make_credential c q_ctap) script_mc = (tr_mc, r_mc)
       /\ mc_user q_ctap = rq_user q
       /\ rk_spec (rq_selection q) (rk_capable d0) = Some (o_rk (mc_opts q_ctap))
       /\ o_up (mc_opts q_ctap) = true
       /\ no_save tr_fin
       /\ (forall cr, res = Some (Ok cr) -> exists resp, r_mc = Some (Ok resp)).
Proof. exact register_request_issued. Qed.

(** (a) every save made during any run of [register]: its options carry rk = the WebAuthn table applied
    to the request's selection criteria and the capability answered to the client's (first) query *)
Theorem c11_option_sent : forall c domain origin q cd script p u rp o a,
  In (ESave p u rp o, a) (fst (interp (register c domain origin q cd) script)) ->
  exists d0 rest,
    store_events (fst (interp (register c domain origin q cd) script)) = (EStoreInfo, AInfo d0) :: rest
    /\ rk_spec (rq_selection q) (rk_capable d0) = Some (o_rk o)
    /\ o_up o = true /\ u = rq_user q.
Proof. exact register_option_sent. Qed.

(** (b) every save made during any run of [make_credential] is the last store event, directly preceded
    by a capability query; the user handle stored is the request's user id exactly when the capability
    table says "discoverable" for that answer and the request's rk option, and absent otherwise *)
Theorem c11_user_handle_stored_iff_discoverable : forall c q script p u rp o a,
  In (ESave p u rp o, a) (fst (interp (make_credential c q) script)) ->
  exists pre d b,
    store_events (fst (interp (make_credential c q) script)) = pre ++ [(EStoreInfo, AInfo d); (ESave p u rp o, a)]
    /\ o = mc_opts q /\ u = mc_user q
    /\ disc_spec d (o_rk (mc_opts q)) = Some b
    /\ pk_user_handle p = (if b then Some (u_id (mc_user q)) else None).
Proof. exact make_credential_user_handle. Qed.

(** (b) rk requested of a store that answers OnlyNonDiscoverable: no save, no update, never Ok, and once
    the capability has been queried the result is UnsupportedOption (or the run was cut) *)
Theorem c11_required_resident_key_refused : forall c q script,
  o_rk (mc_opts q) = true ->
  constant_capability OnlyNonDiscoverable (fst (interp (make_credential c q) script)) ->
  filter (fun ea => mutates (fst ea)) (fst (interp (make_credential c q) script)) = []
  /\ not_ok (snd (interp (make_credential c q) script)) = true
  /\ (In (EStoreInfo, AInfo OnlyNonDiscoverable) (fst (interp (make_credential c q) script)) ->
      snd (interp (make_credential c q) script) = None
      \/ snd (interp (make_credential c q) script) = Some (Err CTAP2_UnsupportedOption)).
Proof. exact make_credential_refusal. Qed.

(** (b) the same at the WebAuthn client, for a selection the table maps to "required" even for an
    incapable authenticator (residentKey = required, or absent with requireResidentKey = true) *)
Theorem c11_required_resident_key_refused_client : forall c domain origin q cd script,
  rk_spec (rq_selection q) false = Some true ->
  constant_capability OnlyNonDiscoverable (fst (interp (register c domain origin q cd) script)) ->
  filter (fun ea => mutates (fst ea)) (fst (interp (register c domain origin q cd) script)) = []
  /\ wnot_ok (snd (interp (register c domain origin q cd) script))
  /\ ((2 <= length (filter (fun ea => is_store_info (fst ea)) (fst (interp (register c domain origin q cd) script))))%nat ->
      snd (interp (register c domain origin q cd) script) = None
      \/ snd (interp (register c domain origin q cd) script) = Some (Err (WAuthenticatorError CTAP2_UnsupportedOption))).
Proof. exact register_refusal. Qed.

(** (c) a successful [register], without any assumption on the store: the option sent follows the
    first capability answer [d0], the stored user handle the answer [d2] right before the save, the
    credProps output the answer [d3] to the client's second query, after the ceremony *)
Theorem c11_cred_props_general : forall c domain origin q cd script cr,
  snd (interp (register c domain origin q cd) script) = Some (Ok cr) ->
  exists d0 mid d2 p u rp o d3 rk,
    store_events (fst (interp (register c domain origin q cd) script))
      = (EStoreInfo, AInfo d0) :: mid ++ [(EStoreInfo, AInfo d2); (ESave p u rp o, AUnit (Ok tt)); (EStoreInfo, AInfo d3)]
    /\ Forall find_or_info mid
    /\ rk_spec (rq_selection q) (rk_capable d0) = Some rk /\ o_rk o = rk
    /\ pk_user_handle p = (if is_discoverable d2 rk then Some (u_id (rq_user q)) else None)
    /\ pk_cred_id p = cr_raw_id cr
    /\ cr_cred_props cr = match opt_bind (rq_ext q) we_cred_props with
                          | Some true => Some (Some (is_discoverable d3 rk))
                          | _ => None
                          end.
Proof. exact register_cred_props_general. Qed.

(** (c) HYPOTHESIS [constant_capability d]: every capability answer of the run is [d] - the store's
    get_info() is a pure function of the store, true of every store shipped with the library
    (MemoryStore and Option<Passkey> answer a constant, the lock wrappers delegate).  Then credProps,
    when requested with true, is exactly "the stored credential carries a user handle" = the capability
    table's verdict for the rk option the WebAuthn table prescribes; it is absent when not requested. *)
Theorem c11_cred_props_truthful : forall c domain origin q cd script cr d,
  constant_capability d (fst (interp (register c domain origin q cd) script)) ->
  snd (interp (register c domain origin q cd) script) = Some (Ok cr) ->
  exists p u rp o rk b,
    In (ESave p u rp o, AUnit (Ok tt)) (fst (interp (register c domain origin q cd) script))
    /\ pk_cred_id p = cr_raw_id cr
    /\ rk_spec (rq_selection q) (rk_capable d) = Some rk /\ o_rk o = rk
    /\ disc_spec d rk = Some b
    /\ is_some (pk_user_handle p) = b
    /\ (forall h, pk_user_handle p = Some h -> h = u_id (rq_user q))
    /\ cr_cred_props cr = match opt_bind (rq_ext q) we_cred_props with
                          | Some true => Some (Some (is_some (pk_user_handle p)))
                          | _ => None
                          end.
Proof. exact register_cred_props. Qed.

(** (d) a successful assertion returns exactly the user handle of the credential it used: the first
    credential of the lookup's answer (whose counter update does not touch the handle) *)
Theorem c11_assertion_user_handle : forall ad_bytes c q script r,
  snd (interp (get_assertion ad_bytes c q) script) = Some (Ok r) ->
  exists ids rp r0 cred0 rest,
    store_events (fst (interp (get_assertion ad_bytes c q) script)) = (EFind ids rp, AFind r0) :: rest
    /\ first_credential r0 = Ok cred0
    /\ gr_cred_id r = pk_cred_id cred0
    /\ gr_user_handle r = pk_user_handle cred0.
Proof. exact assertion_user_handle. Qed.

Theorem c11_assertion_user_handle_client : forall c domain origin q cd script au,
  snd (interp (authenticate c domain origin q cd) script) = Some (Ok au) ->
  exists d0 ids rp r0 cred0 rest,
    store_events (fst (interp (authenticate c domain origin q cd) script))
      = (EStoreInfo, AInfo d0) :: (EFind ids rp, AFind r0) :: rest
    /\ first_credential r0 = Ok cred0
    /\ au_raw_id au = pk_cred_id cred0
    /\ au_user_handle au = pk_user_handle cred0.
Proof. exact authenticate_user_handle. Qed.

(** against the reference store (lookups by the documented contract, saves honoured, capability the
    constant [d]): one successful registration *)
Theorem c11_registration_step : forall c domain origin q cd st d script st' tr cr,
  exec (register c domain origin q cd) st d script = (st', tr, Some (Ok cr)) ->
  exists p rk b,
    st' = put st p /\ pk_cred_id p = cr_raw_id cr
    /\ rk_spec (rq_selection q) (rk_capable d) = Some rk
    /\ disc_spec d rk = Some b
    /\ pk_user_handle p = (if b then Some (u_id (rq_user q)) else None)
    /\ cr_cred_props cr = match opt_bind (rq_ext q) we_cred_props with
                          | Some true => Some (Some b)
                          | _ => None
                          end.
Proof. exact register_step. Qed.

(** ... and end to end: registration, then an assertion that used the credential just created returns
    a user handle exactly when the tables say the credential is discoverable, which is what credProps
    said at registration *)
Theorem c11_end_to_end : forall c domain origin q cd st d script st1 tr1 cr c' domain' origin' q' cd' d' script' st2 tr2 au,
  unique_ids st ->
  exec (register c domain origin q cd) st d script = (st1, tr1, Some (Ok cr)) ->
  exec (authenticate c' domain' origin' q' cd') st1 d' script' = (st2, tr2, Some (Ok au)) ->
  au_raw_id au = cr_raw_id cr ->
  exists rk b,
    rk_spec (rq_selection q) (rk_capable d) = Some rk
    /\ disc_spec d rk = Some b
    /\ au_user_handle au = (if b then Some (u_id (rq_user q)) else None)
    /\ (opt_bind (rq_ext q) we_cred_props = Some true -> cr_cred_props cr = Some (Some (is_some (au_user_handle au)))).
Proof. exact register_then_authenticate. Qed.

(** the property as boolean judgements over (store events, result) - the oracles the check evaluates on
    the implementation's call logs - hold on every run of the model *)
Theorem c11_registration_judgement : forall c domain origin q cd script,
  c11_reg_judge q (store_events (fst (interp (register c domain origin q cd) script)))
                  (snd (interp (register c domain origin q cd) script)) = true.
Proof. exact c11_reg_judge_model. Qed.

Theorem c11_authentication_judgement : forall c domain origin q cd script,
  c11_auth_judge (store_events (fst (interp (authenticate c domain origin q cd) script)))
                 (snd (interp (authenticate c domain origin q cd) script)) = true.
Proof. exact c11_auth_judge_model. Qed.

Theorem c11_make_credential_judgement : forall c q script,
  c11_mc_judge q (store_events (fst (interp (make_credential c q) script))) (snd (interp (make_credential c q) script)) = true.
Proof. exact c11_mc_judge_model. Qed.

Theorem c11_get_assertion_judgement : forall ad_bytes c q script,
  c11_ga_judge (store_events (fst (interp (get_assertion ad_bytes c q) script))) (snd (interp (get_assertion ad_bytes c q) script)) = true.
Proof. exact c11_ga_judge_model. Qed.

(** *** non-vacuity *)
Definition sel_preferred := Some {| sel_rk := Some RkPreferred; sel_require_rk := false; sel_uv := UvPreferred |}.
Definition sel_required := Some {| sel_rk := Some RkRequired; sel_require_rk := false; sel_uv := UvPreferred |}.
Definition demo_run sel d0 d2 d3 :=
  interp (register c11_demo_config (Ok [97]) [104] (c11_demo_request sel (Some true)) CdDefault) (c11_demo_script d0 d2 d3).

(** a registration that succeeds against a Full store: rk sent, user handle stored, credProps true *)
Example c11_example_full :
  exists tr cr, demo_run sel_preferred Full Full Full = (tr, Some (Ok cr))
    /\ constant_capability Full tr /\ cr_cred_props cr = Some (Some true)
    /\ exists p u rp a, In (ESave p u rp {| o_rk := true; o_up := true; o_uv := true |}, a) tr /\ pk_user_handle p = Some [7].
Proof.
  do 2 eexists. split; [vm_compute; reflexivity|]. split; [|split; [reflexivity|]].
  - intros a H. cbn in H. repeat (destruct H as [H|H]; [try discriminate H; injection H as <-; reflexivity|]). destruct H.
  - do 4 eexists. split; [do 11 right; left; reflexivity|reflexivity].
Qed.

(** preferred against a store that only holds non-discoverable credentials: rk not sent, no user
    handle, credProps false *)
Example c11_example_only_non :
  exists tr cr,
    interp (register c11_demo_config (Ok [97]) [104] (c11_demo_request sel_preferred (Some true)) CdDefault)
      [AInfo OnlyNonDiscoverable; AOptBool (Some true); ABool true; AOptBool (Some true); ACheck (Ok (true, true));
       ABytes [9]; AKey [1] (repeat 2 32) (repeat 3 32); AInfo OnlyNonDiscoverable; AUnit (Ok tt); AInfo OnlyNonDiscoverable]
    = (tr, Some (Ok cr))
    /\ cr_cred_props cr = Some (Some false)
    /\ exists p u rp a, In (ESave p u rp {| o_rk := false; o_up := true; o_uv := true |}, a) tr /\ pk_user_handle p = None.
Proof.
  do 2 eexists. split; [vm_compute; reflexivity|]. split; [reflexivity|].
  do 4 eexists. split; [do 8 right; left; reflexivity|reflexivity].
Qed.

(** required against such a store: refused with UnsupportedOption at the authenticator's capability
    query, nothing saved (hypotheses of [c11_required_resident_key_refused_client] are satisfiable) *)
Example c11_example_refused :
  rk_spec sel_required false = Some true
  /\ exists tr, interp (register c11_demo_config (Ok [97]) [104] (c11_demo_request sel_required (Some true)) CdDefault)
                  [AInfo OnlyNonDiscoverable; AOptBool (Some true); ABool true; AOptBool (Some true); ACheck (Ok (true, true));
                   AInfo OnlyNonDiscoverable; AOptBool (Some true); ABool true]
                = (tr, Some (Err (WAuthenticatorError CTAP2_UnsupportedOption)))
              /\ length (filter (fun ea => is_store_info (fst ea)) tr) = 2%nat.
Proof. split; [reflexivity|]. eexists. split; vm_compute; reflexivity. Qed.

(** the capability hypothesis of [c11_cred_props_truthful] cannot be dropped: if the store's answer
    changes between the save and the client's second query, the user handle is stored and credProps
    says "not discoverable" (consistent with [c11_cred_props_general]) *)
Example c11_capability_must_be_constant :
  exists tr cr, demo_run sel_preferred Full Full OnlyNonDiscoverable = (tr, Some (Ok cr))
    /\ cr_cred_props cr = Some (Some false)
    /\ exists p u rp o a, In (ESave p u rp o, a) tr /\ pk_user_handle p = Some [7].
Proof.
  do 2 eexists. split; [vm_compute; reflexivity|]. split; [reflexivity|].
  do 5 eexists. split; [do 11 right; left; reflexivity|reflexivity].
Qed.

Print Assumptions c11_map_rk_is_the_webauthn_table.
Print Assumptions c11_is_discoverable_is_the_capability_table.
Print Assumptions c11_rk_table_is_a_function.
Print Assumptions c11_get_info_rk.
Print Assumptions c11_request_issued.
Print Assumptions c11_option_sent.
Print Assumptions c11_user_handle_stored_iff_discoverable.
Print Assumptions c11_required_resident_key_refused.
Print Assumptions c11_required_resident_key_refused_client.
Print Assumptions c11_cred_props_general.
Print Assumptions c11_cred_props_truthful.
Print Assumptions c11_assertion_user_handle.
Print Assumptions c11_assertion_user_handle_client.
Print Assumptions c11_registration_step.
Print Assumptions c11_end_to_end.
Print Assumptions c11_registration_judgement.
Print Assumptions c11_authentication_judgement.
Print Assumptions c11_make_credential_judgement.
Print Assumptions c11_get_assertion_judgement.
