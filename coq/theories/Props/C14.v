(** C14 - WebAuthn JSON parses leniently, re-parses when emitted, client data keeps order.
    Statements only: each is closed by [exact] of a lemma proved in Lib/Base64Facts.v,
    Wire/JsonFacts.v or Wire/JsonLaws.v.

    Vocabulary (Wire/Json.v).  A document is a JSON *value* [json] (objects keep member order and
    duplicates; serde_json's text layer is third party and is tied by the differential run).  A Rust
    type is a schema [ty]; the schemas [r_...] / [s_...] are GENERATED from the struct and enum
    definitions of passkey-types (gen/JsonSchema.v) with their serde attributes.  [de fl t v] is what
    [T::deserialize] returns on [v] ([fl = Stream]: serde_json reading text; [fl = Cb]: the generic
    value deserialiser every entry of an [ignore_unknown_(opt_)vec] list goes through);
    [parse t v = to_opt (de Stream t v)] is [serde_json::from_str::<T>]; [ser t x] is the value
    [serde_json::to_string] writes for the Rust value [x : rv].

    [canon fl t v] (Wire/JsonLaws.v) is the canonical form of a document along a schema: every
    [Bytes] member as an array of numbers, every timeout / algorithm identifier as a plain integer,
    the members no field claims removed from every struct at every depth, entries of leniently read
    lists that do not deserialise removed.  [c14_canonical_form] says a document and its canonical
    form parse to the same result, so any two documents with the same canonical form parse alike;
    the remaining theorems say what the canonical form does to the presentations the property names. *)
From Coq Require Import ZArith.
From PK Require Import Lib.Bytes Lib.Base64 Lib.Base64Facts Wire.Json Wire.JsonFacts Wire.JsonLaws Wire.gen.JsonSchema.
Open Scope N_scope.

(** * (1) Binary members: array of numbers, base64url, base64, padded or not *)

(** the [Bytes] visitor on the five presentations the property names, either deserialiser flavour *)
Theorem c14_bytes_presentations : forall fl b, bytes_ok b ->
  de fl TBytes (json_of_bytes b) = Ok (RBytes b)
  /\ de fl TBytes (JStr (b64url_encode b)) = Ok (RBytes b)
  /\ de fl TBytes (JStr (b64url_encode b ++ b64_padding b)) = Ok (RBytes b)
  /\ de fl TBytes (JStr (b64_encode b)) = Ok (RBytes b)
  /\ de fl TBytes (JStr (b64_encode b ++ b64_padding b)) = Ok (RBytes b).
Proof. exact bytes_presentations. Qed.
Print Assumptions c14_bytes_presentations.

(** ... and with any number of '=' appended ([bytes_pres]: array, either alphabet, k times '=') *)
Theorem c14_bytes_any_presentation : forall fl b v, bytes_ok b -> bytes_pres b v -> de fl TBytes v = Ok (RBytes b).
Proof. exact de_bytes_pres. Qed.
Print Assumptions c14_bytes_any_presentation.

(** [Bytes::try_from(&str)] tries base64url first and standard base64 second.  A string that both
    decoders accept has ONE value, so neither alphabet can be mis-decoded by the other decoder ... *)
Theorem c14_bytes_decoders_agree : forall s b b',
  try_from_base64 s = Some b -> try_from_base64url s = Some b' -> b = b'.
Proof. exact std_then_url_same. Qed.
Print Assumptions c14_bytes_decoders_agree.

(** ... and the order of the two attempts does not matter *)
Theorem c14_bytes_attempt_order_irrelevant : forall s,
  bytes_try_from_str s = match try_from_base64 s with Some b => Some b | None => try_from_base64url s end.
Proof. exact bytes_try_from_order_irrelevant. Qed.
Print Assumptions c14_bytes_attempt_order_irrelevant.

(** a [Bytes] or [Option<Bytes>] member of ANY struct without flattened fields, in any presentation,
    wherever it stands in the object and whatever else the object holds: same parse *)
Theorem c14_bytes_member : forall fields k i f b v es1 es2,
  plain_struct false fields = true ->
  find_field (struct_canons Stream fields) 0 k = Some i -> nth_error fields i = Some f ->
  f_dw f = DwNone -> (f_ty f = TBytes \/ f_ty f = TOpt TBytes) ->
  bytes_ok b -> bytes_pres b v ->
  parse (TStruct false fields) (JObj (es1 ++ (k, v) :: es2))
  = parse (TStruct false fields) (JObj (es1 ++ (k, json_of_bytes b) :: es2)).
Proof. exact bytes_member_presentations. Qed.
Print Assumptions c14_bytes_member.

(** * (2) Timeouts and algorithm identifiers: number, numeric string, integral float *)

(** [StringOrNum<T>] for T = u32 and T = i64, every integer of the type; an integral float is a
    literal m * 10^e that denotes n exactly ([dec_is]) *)
Theorem c14_string_or_num : forall t n, fits t n = true ->
  string_or_num t (JInt n) = Some n
  /\ string_or_num t (JStr (dec_of_Z n)) = Some n
  /\ (forall m e, dec_is m e n -> string_or_num t (JDec m e) = Some n).
Proof. exact string_or_num_presentations. Qed.
Print Assumptions c14_string_or_num.

(** the [timeout] member of both option dictionaries, for every u32 and every presentation
    ([num_pres]: 1800 | "1800" | a float literal of at most 15 significant digits equal to 1800) *)
Theorem c14_timeout_presentations : forall t n v es1 es2,
  t = r_PublicKeyCredentialCreationOptions \/ t = r_PublicKeyCredentialRequestOptions ->
  fits NU32 n = true -> num_pres n v ->
  parse t (JObj (es1 ++ (str_timeout, v) :: es2)) = parse t (JObj (es1 ++ (str_timeout, JInt n) :: es2)).
Proof. exact options_timeout_presentations. Qed.
Print Assumptions c14_timeout_presentations.

(** the [alg] member of a credential parameter, every i64 (registered or not), both as serde_json
    streams it and as the entry of pubKeyCredParams sees it *)
Theorem c14_alg_presentations : forall fl n v es1 es2,
  fits NI64 n = true -> num_pres n v ->
  to_opt (de fl r_PublicKeyCredentialParameters (JObj (es1 ++ (str_alg, v) :: es2)))
  = to_opt (de fl r_PublicKeyCredentialParameters (JObj (es1 ++ (str_alg, JInt n) :: es2))).
Proof. exact parameters_alg_presentations. Qed.
Print Assumptions c14_alg_presentations.

(** the same for a [maybe_stringified] member of any struct *)
Theorem c14_stringified_member : forall fields k i f n v es1 es2,
  plain_struct false fields = true ->
  find_field (struct_canons Stream fields) 0 k = Some i -> nth_error fields i = Some f ->
  f_dw f = DwMaybeStringified -> fits NU32 n = true -> num_pres n v ->
  parse (TStruct false fields) (JObj (es1 ++ (k, v) :: es2))
  = parse (TStruct false fields) (JObj (es1 ++ (k, JInt n) :: es2)).
Proof. exact stringified_member_presentations. Qed.
Print Assumptions c14_stringified_member.

(** * (3) Canonical form; unknown members; unknown enumeration strings *)

(** every document of every schema parses like its canonical form, in both flavours *)
Theorem c14_canonical_form : forall t v, parse t v = parse t (canon Stream t v).
Proof. exact canon_parse. Qed.
Print Assumptions c14_canonical_form.

Theorem c14_canonical_form_cb : forall t v, de Cb t v = de Cb t (canon Cb t v).
Proof. exact canon_parse_cb. Qed.
Print Assumptions c14_canonical_form_cb.

Theorem c14_same_canon_same_parse : forall t v v', canon Stream t v = canon Stream t v' -> parse t v = parse t v'.
Proof. exact same_canon_same_parse. Qed.
Print Assumptions c14_same_canon_same_parse.

(** what the canonical form does: presentations of a byte string, of a number ... *)
Theorem c14_canon_bytes : forall fl b v, bytes_ok b -> bytes_pres b v -> canon fl TBytes v = json_of_bytes b.
Proof. exact canon_bytes_pres. Qed.
Print Assumptions c14_canon_bytes.

Theorem c14_canon_number : forall t n v, fits t n = true -> num_pres n v -> num_canon t v = JInt n.
Proof. exact num_canon_pres. Qed.
Print Assumptions c14_canon_number.

(** ... an unknown member (a key that is no field's name and no alias), whatever its value, wherever
    it stands, of any struct that neither denies unknown fields nor flattens ... *)
Theorem c14_canon_unknown_member : forall fl fields k v es1 es2,
  plain_struct false fields = true -> unknown_key fields k = true ->
  canon fl (TStruct false fields) (JObj (es1 ++ (k, v) :: es2)) = canon fl (TStruct false fields) (JObj (es1 ++ es2)).
Proof. exact canon_insert_unknown. Qed.
Print Assumptions c14_canon_unknown_member.

(** ... a member whose own value changes between two documents with the same canonical form (this
    is how equal canonical forms propagate outwards from any depth) *)
Theorem c14_canon_member : forall fl fields k i f v v' es1 es2,
  plain_struct false fields = true ->
  find_field (struct_canons fl fields) 0 k = Some i -> nth_error fields i = Some f ->
  field_canon fl f v = field_canon fl f v' ->
  canon fl (TStruct false fields) (JObj (es1 ++ (k, v) :: es2)) = canon fl (TStruct false fields) (JObj (es1 ++ (k, v') :: es2)).
Proof. exact canon_member_congr. Qed.
Print Assumptions c14_canon_member.

(** unknown members are ignored: any struct ... *)
Theorem c14_unknown_member_ignored : forall fields k v es1 es2,
  plain_struct false fields = true -> unknown_key fields k = true ->
  parse (TStruct false fields) (JObj (es1 ++ (k, v) :: es2)) = parse (TStruct false fields) (JObj (es1 ++ es2)).
Proof. exact unknown_member_ignored. Qed.
Print Assumptions c14_unknown_member_ignored.

(** ... in particular all 19 structs of the crate's WebAuthn JSON as they are defined now (request
    options, the dictionaries nested in them, responses, both credential types): none denies unknown
    fields ([all_structs_plain], by computation on the generated schemas) ... *)
Theorem c14_schema_unknown_member_ignored : forall t k v es1 es2,
  In t all_structs -> unknown_key (fields_of t) k = true ->
  parse t (JObj (es1 ++ (k, v) :: es2)) = parse t (JObj (es1 ++ es2)).
Proof. exact schema_unknown_member_ignored. Qed.
Print Assumptions c14_schema_unknown_member_ignored.

(** ... also as entries of leniently read lists (excludeCredentials, allowCredentials, pubKeyCredParams) *)
Theorem c14_schema_unknown_member_ignored_in_lists : forall t k v es1 es2,
  In t all_structs -> unknown_key (fields_of t) k = true ->
  de Cb t (JObj (es1 ++ (k, v) :: es2)) = de Cb t (JObj (es1 ++ es2)).
Proof. exact schema_unknown_member_ignored_cb. Qed.
Print Assumptions c14_schema_unknown_member_ignored_in_lists.

(** ... one level down in a nested dictionary (and so on, level by level, by [c14_canon_member]) ... *)
Theorem c14_unknown_member_ignored_nested : forall fields k i f fields' k' v' a b es1 es2,
  plain_struct false fields = true ->
  find_field (struct_canons Stream fields) 0 k = Some i -> nth_error fields i = Some f -> f_dw f = DwNone ->
  (f_ty f = TStruct false fields' \/ f_ty f = TOpt (TStruct false fields')) ->
  plain_struct false fields' = true -> unknown_key fields' k' = true ->
  parse (TStruct false fields) (JObj (es1 ++ (k, JObj (a ++ (k', v') :: b)) :: es2))
  = parse (TStruct false fields) (JObj (es1 ++ (k, JObj (a ++ b)) :: es2)).
Proof. exact unknown_member_ignored_nested. Qed.
Print Assumptions c14_unknown_member_ignored_nested.

(** ... inside an entry of a leniently read list of an enclosing dictionary ... *)
Theorem c14_unknown_member_ignored_in_list_entry : forall fl fields k i f fields' k' v' a b l1 l2 es1 es2,
  plain_struct false fields = true ->
  find_field (struct_canons fl fields) 0 k = Some i -> nth_error fields i = Some f ->
  (f_dw f = DwIgnoreUnknownOptVec /\ f_ty f = TOpt (TVec (TStruct false fields'))
   \/ f_dw f = DwIgnoreUnknownVec /\ f_ty f = TVec (TStruct false fields')) ->
  plain_struct false fields' = true -> unknown_key fields' k' = true ->
  to_opt (de fl (TStruct false fields) (JObj (es1 ++ (k, JArr (l1 ++ JObj (a ++ (k', v') :: b) :: l2)) :: es2)))
  = to_opt (de fl (TStruct false fields) (JObj (es1 ++ (k, JArr (l1 ++ JObj (a ++ b) :: l2)) :: es2))).
Proof. exact unknown_member_ignored_in_list_entry. Qed.
Print Assumptions c14_unknown_member_ignored_in_list_entry.

(** ... and a parse that succeeds keeps its value (result as it stands, either flavour) *)
Theorem c14_unknown_member_keeps_value : forall fl fields k v es1 es2 x,
  plain_struct false fields = true -> unknown_key fields k = true ->
  de fl (TStruct false fields) (JObj (es1 ++ es2)) = Ok x ->
  de fl (TStruct false fields) (JObj (es1 ++ (k, v) :: es2)) = Ok x.
Proof. exact unknown_member_ok_preserved. Qed.
Print Assumptions c14_unknown_member_keeps_value.

(** unknown enumeration strings.  No enumeration has a catch-all variant ([no_enum_catch_all]), so
    "unknown" is: no variant's name and no alias ([enum_lookup e s = None]).
    Under [ignore_unknown] the member takes the type's default ... *)
Theorem c14_unknown_enum_default : forall fl (f : field) e s,
  f_flatten f = false -> f_dw f = DwIgnoreUnknown -> f_ty f = TEnum e -> enum_lookup e s = None ->
  field_parser fl f (JStr s) = Ok (REnum (match e_default e with Some d => d | None => 0 end)).
Proof. exact ignore_unknown_enum_default. Qed.
Print Assumptions c14_unknown_enum_default.

(** ... [None] when the member is optional ... *)
Theorem c14_unknown_enum_none : forall fl (f : field) e s,
  f_flatten f = false -> f_dw f = DwIgnoreUnknown -> f_ty f = TOpt (TEnum e) -> enum_lookup e s = None ->
  field_parser fl f (JStr s) = Ok RNone.
Proof. exact ignore_unknown_enum_none. Qed.
Print Assumptions c14_unknown_enum_none.

(** ... and in a leniently read list (hints, attestationFormats, transports) the entry is dropped,
    the other entries are kept in order *)
Theorem c14_unknown_enum_entry_dropped : forall fl (f : field) e s l1 l2,
  f_flatten f = false ->
  (f_dw f = DwIgnoreUnknownOptVec /\ f_ty f = TOpt (TVec (TEnum e)) \/ f_dw f = DwIgnoreUnknownVec /\ f_ty f = TVec (TEnum e)) ->
  enum_lookup e s = None ->
  field_parser fl f (JArr (l1 ++ JStr s :: l2)) = field_parser fl f (JArr (l1 ++ l2)).
Proof. exact lenient_list_drops_unknown_enum. Qed.
Print Assumptions c14_unknown_enum_entry_dropped.

(** any entry that does not deserialise is dropped ... *)
Theorem c14_lenient_list_drops : forall p x l1 l2, (forall y, p x <> Ok y) -> keep_ok p (l1 ++ x :: l2) = keep_ok p (l1 ++ l2).
Proof. exact keep_ok_drop. Qed.
Print Assumptions c14_lenient_list_drops.

(** ... e.g. a credential parameter whose algorithm (in any presentation) is not a registered one *)
Theorem c14_unknown_alg_entry_dropped : forall v es1 es2 l1 l2,
  (forall z, string_or_num NI64 v = Some z -> alg_known z = false) ->
  keep_ok (de Cb r_PublicKeyCredentialParameters) (l1 ++ JObj (es1 ++ (str_alg, v) :: es2) :: l2)
  = keep_ok (de Cb r_PublicKeyCredentialParameters) (l1 ++ l2).
Proof. exact unknown_alg_entry_dropped. Qed.
Print Assumptions c14_unknown_alg_entry_dropped.

(** * (4) Emitted credentials parse back *)

(** every schema satisfying the computable condition [rt_ok] (member names lead back to their own
    field, skipped members have a default, enumeration names are distinct, no [Option<Option<_>>],
    no flattening), every value of the type ([wt]: bytes below 256, integers in range, registered
    algorithms, existing variants) *)
Theorem c14_round_trip : forall t x, rt_ok t = true -> wt t x = true -> parse t (ser t x) = Some x.
Proof. exact emit_parse_round_trip. Qed.
Print Assumptions c14_round_trip.

(** the two credential types the client emits, with their responses and client extension results *)
Theorem c14_created_credential_round_trip : forall c,
  wt r_CreatedPublicKeyCredential c = true -> parse r_CreatedPublicKeyCredential (ser r_CreatedPublicKeyCredential c) = Some c.
Proof. exact created_credential_round_trip. Qed.
Print Assumptions c14_created_credential_round_trip.

Theorem c14_authenticated_credential_round_trip : forall c,
  wt r_AuthenticatedPublicKeyCredential c = true ->
  parse r_AuthenticatedPublicKeyCredential (ser r_AuthenticatedPublicKeyCredential c) = Some c.
Proof. exact authenticated_credential_round_trip. Qed.
Print Assumptions c14_authenticated_credential_round_trip.

(** * (5) base64url *)
Theorem c14_b64url_round : forall b, bytes_ok b -> b64url_decode (b64url_encode b) = Some b.
Proof. exact b64url_round. Qed.
Print Assumptions c14_b64url_round.

Theorem c14_b64url_unpadded_url_alphabet : forall b, bytes_ok b ->
  ~ In 61 (b64url_encode b) /\ Forall (fun c => b64_alpha true c = true) (b64url_encode b).
Proof. exact b64url_shape. Qed.
Print Assumptions c14_b64url_unpadded_url_alphabet.

(** * (6) Client data: member sequence of the serialisation *)

(** [CollectedClientData<E>] for every E: type, challenge, origin, crossOrigin (a boolean, never
    null, true only for [Some(true)]), then what E serialises to, then the unknown members *)
Theorem c14_client_data_members : forall E i ch og cross extra unk,
  ser (s_CollectedClientData E) (RStruct [REnum i; RStr ch; RStr og; cross; extra; RMap unk]) =
  JObj ([(str_type, JStr (enum_name e_ClientDataType i)); (str_challenge, JStr ch); (str_origin, JStr og);
         (str_crossOrigin, JBool (truthy cross))]
        ++ members_of (ser E extra) ++ map (fun kv => (fst kv, ser TJson (snd kv))) unk).
Proof. exact client_data_members. Qed.
Print Assumptions c14_client_data_members.

(** E = serde_json::Map: extras then unknown members, each in their original order *)
Theorem c14_client_data_members_map : forall i ch og cross extra unknown,
  ser (s_CollectedClientData (TIndexMap TJson)) (RStruct [REnum i; RStr ch; RStr og; cross; rjson_map extra; rjson_map unknown]) =
  JObj ([(str_type, JStr (enum_name e_ClientDataType i)); (str_challenge, JStr ch); (str_origin, JStr og);
         (str_crossOrigin, JBool (truthy cross))] ++ extra ++ unknown).
Proof. exact client_data_members_map. Qed.
Print Assumptions c14_client_data_members_map.

(** E = () *)
Theorem c14_client_data_members_unit : forall i ch og cross x unknown,
  ser (s_CollectedClientData TUnit) (RStruct [REnum i; RStr ch; RStr og; cross; x; rjson_map unknown]) =
  JObj ([(str_type, JStr (enum_name e_ClientDataType i)); (str_challenge, JStr ch); (str_origin, JStr og);
         (str_crossOrigin, JBool (truthy cross))] ++ unknown).
Proof. exact client_data_members_unit. Qed.
Print Assumptions c14_client_data_members_unit.

(** * Examples: the hypotheses are satisfiable, the generated schemas meet the side conditions *)

Definition k_zzz : bytes := [122; 122; 122].
Definition s_AQID : bytes := [65; 81; 73; 68].                  (* base64 of 1,2,3 *)

Example c14_ex_schemas_plain : forallb is_plain_struct all_structs = true.
Proof. exact all_structs_plain. Qed.

Example c14_ex_credentials_rt_ok : rt_ok r_CreatedPublicKeyCredential = true /\ rt_ok r_AuthenticatedPublicKeyCredential = true.
Proof. exact credentials_rt_ok. Qed.

Example c14_ex_no_catch_all : forallb (fun e => match e_other e with None => true | Some _ => false end) all_enums = true.
Proof. exact no_enum_catch_all. Qed.

Example c14_ex_unknown_key :
  unknown_key (fields_of r_PublicKeyCredentialCreationOptions) k_zzz = true
  /\ unknown_key (fields_of r_PublicKeyCredentialRequestOptions) str_allowList = false      (* an alias is known *)
  /\ enum_lookup e_UserVerificationRequirement k_zzz = None
  /\ enum_lookup e_AuthenticatorTransport str_cable = Some 3.                                (* alias of hybrid *)
Proof. vm_compute. repeat split; reflexivity. Qed.

Example c14_ex_member_fields :
  find_field (struct_canons Stream (fields_of r_PublicKeyCredentialRequestOptions)) 0 str_challenge = Some 0%nat
  /\ find_field (struct_canons Stream (fields_of r_PublicKeyCredentialUserEntity)) 0 str_id = Some 0%nat
  /\ find_field (struct_canons Stream (fields_of r_PublicKeyCredentialCreationOptions)) 0 str_timeout = Some 4%nat.
Proof. repeat split; reflexivity. Qed.

Example c14_ex_bytes_pres : bytes_pres [1; 2; 3] (JStr s_AQID) /\ num_pres 1800 (JDec 18000 (-1)) /\ num_pres 1800 (JDec 18 2).
Proof.
  split; [exact (BP_url [1; 2; 3])|]. split; constructor; vm_compute; reflexivity.
Qed.

(** the defaults the enumeration members under [ignore_unknown] fall back to *)
Example c14_ex_defaults :
  enum_name e_UserVerificationRequirement 1 = str_preferred /\ e_default e_UserVerificationRequirement = Some 1
  /\ enum_name e_AttestationConveyancePreference 0 = str_none /\ e_default e_AttestationConveyancePreference = Some 0
  /\ enum_name e_PublicKeyCredentialType 1 = str_unknown /\ e_default e_PublicKeyCredentialType = Some 1.
Proof. repeat split; reflexivity. Qed.

(** the type strings of client data are the ones the WebAuthn / SPC specifications prescribe *)
Example c14_ex_client_data_types :
  enum_name e_ClientDataType 0 = str_webauthn_create /\ enum_name e_ClientDataType 1 = str_webauthn_get
  /\ enum_name e_ClientDataType 2 = str_payment_get.
Proof. repeat split; reflexivity. Qed.

(** a credential as the client emits it is a value of its type *)
Definition ex_assertion : rv :=
  RStruct [RStr s_AQID; RBytes [1; 2; 3]; REnum 0;
           RStruct [RBytes [123; 125]; RBytes [0; 255]; RBytes [48; 1]; RSome (RBytes [7]); RNone];
           RSome (REnum 0);
           RStruct [RNone; RSome (RStruct [RNone; RSome (RStruct [RBytes [9; 9]; RNone])])]].

Example c14_ex_credential_wt :
  wt r_AuthenticatedPublicKeyCredential ex_assertion = true
  /\ parse r_AuthenticatedPublicKeyCredential (ser r_AuthenticatedPublicKeyCredential ex_assertion) = Some ex_assertion.
Proof. vm_compute. split; reflexivity. Qed.

(** one document in two shapes: every binary member in another presentation, timeout as a string,
    unknown members at three depths, an unknown transport, an unknown verification requirement, an
    entry of allowCredentials that does not deserialise: same value *)
Definition ex_plain : json :=
  JObj [(str_challenge, JArr [JInt 1; JInt 2; JInt 3]); (str_timeout, JInt 60000); (str_rpId, JStr [97]);
        (str_allowCredentials,
         JArr [JObj [(str_type, JStr str_public_key); (str_id, JArr [JInt 251; JInt 255]); (str_transports, JArr [JStr str_usb])]]);
        (str_userVerification, JStr str_preferred);
        (str_extensions, JObj [(str_prf, JObj [(str_eval, JObj [(str_first, JArr [JInt 251; JInt 255])])])])].

Definition ex_lenient : json :=
  JObj [(k_zzz, JArr [JObj []; JNull]); (str_challenge, JStr s_AQID); (str_timeout, JStr [54; 48; 48; 48; 48]);
        (str_rpId, JStr [97]);
        (str_allowCredentials,
         JArr [JObj [(str_type, JStr str_public_key); (k_zzz, JNull); (str_id, JStr [45; 95; 56]);
                     (str_transports, JArr [JStr k_zzz; JStr str_usb])];
               JObj [(str_type, JStr str_public_key); (str_id, JInt 5)]]);
        (str_userVerification, JStr k_zzz);
        (str_extensions, JObj [(str_prf, JObj [(str_eval, JObj [(str_first, JStr [43; 47; 56; 61]); (k_zzz, JInt 1)])]); (k_zzz, JObj [])])].

Example c14_ex_lenient_document :
  parse r_PublicKeyCredentialRequestOptions ex_lenient = parse r_PublicKeyCredentialRequestOptions ex_plain
  /\ parse r_PublicKeyCredentialRequestOptions ex_plain <> None.
Proof. vm_compute. split; [reflexivity|discriminate]. Qed.

(** A boundary of the leniency, recorded as it is in the code (not within the property: the first
    document is not a presentation of any option value).  [extensions] of the REQUEST options is read
    through [ignore_unknown] = [T::deserialize(de).unwrap_or_default()] on serde_json's STREAMING
    deserialiser: a malformed value is forgiven only if the error is raised when the value has been
    consumed whole.  ["prf": 5] as the last member of [extensions] is forgiven (extensions = None);
    the same followed by an unknown member leaves the reader inside the object and the whole
    document fails.  (Tied to the code by corpus/C14/obs-ext-*.json.) *)
Example c14_ex_forgiven_error_then_unknown_member :
  parse r_PublicKeyCredentialRequestOptions
    (JObj [(str_challenge, JArr []); (str_extensions, JObj [(str_prf, JInt 5)])]) <> None
  /\ parse r_PublicKeyCredentialRequestOptions
       (JObj [(str_challenge, JArr []); (str_extensions, JObj [(str_prf, JInt 5); (k_zzz, JInt 1)])]) = None.
Proof. vm_compute. split; [discriminate|reflexivity]. Qed.
