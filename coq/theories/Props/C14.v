(** C14 - WebAuthn JSON parses leniently, re-parses when emitted, client data keeps order. (under construction) *)
From PK Require Import Lib.Bytes Lib.Base64 Lib.Base64Facts Wire.Json Wire.JsonFacts.
Open Scope N_scope.

Theorem c14_b64url_round : forall b, bytes_ok b -> b64url_decode (b64url_encode b) = Some b.
Proof. exact b64url_round. Qed.
Print Assumptions c14_b64url_round.
