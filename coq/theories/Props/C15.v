(** C15 - Decoders of untrusted input never crash or allocate out of proportion.
    Statements only: each is closed by [exact] of a lemma proved elsewhere.

    PARTIAL, stated plainly (DESIGN.md, C15): the theorems below cover the repo's OWN indexing,
    arithmetic, pre-allocation and loops, for all inputs.  The internals of ciborium, serde_json,
    coset, data-encoding, nom, url and idna are not modelled, and the real allocator, stack and clock
    are runtime: those are observed by the isolated worker on every run (driver/c15.py), not proved.
    From the third-party CBOR layer only the contract the repo relies on is used, and it is a theorem
    about the model of that layer (Lib/Cbor.v, tied to ciborium differentially): part (0).

    Outcomes: [Crash] (Wire/Robust.v), [Panic] (U2F, authenticator data, public suffix), [HPPanic] /
    [run = None] (CTAPHID) all stand for a Rust panic.  [steps] = iterations of the repo's loops,
    [allocs] = the input-dependent allocation requests. *)
From PK Require Import Lib.Bytes Lib.Cbor Lib.CborFacts Lib.Base64 Wire.Robust Wire.RobustFacts.
From PK Require Hid.HidModel Hid.HidFacts Wire.U2fWire Wire.U2fWireFacts Wire.AuthData Wire.AuthDataFacts
                Psl.PslModel Psl.PslShipped Psl.PslData.
Open Scope N_scope.

(** ** (0) the contract taken from the generic CBOR layer: a decoded item is never larger than the
    input consumed for it (so it consumed at least one byte), and nests at most [fuel] deep
    ([cbor_fuel] = 257 = ciborium's recursion limit of 256) *)
Theorem c15_cbor_item_bounded : forall fuel b v r, cbor_decode fuel b = Some (v, r) ->
  (depth v <= fuel)%nat /\ (size v + length r <= length b)%nat.
Proof. exact decode_bounds. Qed.

(** ** (a) the [Bytes] visitor (utils/bytes.rs) *)

(** over any sequence source: at most one iteration per AVAILABLE element plus one, whatever the
    declared length; nothing requested beyond max(4096, twice the available elements) *)
Theorem c15_bytes_visitor : forall s : seq_src N,
  fst (bytes_visit_seq s) <> Crash /\
  (steps (snd (bytes_visit_seq s)) <= length (avail s) + 1)%nat /\
  Forall (fun a => a <= N.max 4096 (2 * N.of_nat (length (avail s)))) (allocs (snd (bytes_visit_seq s))).
Proof. exact bytes_visit_seq_cost. Qed.

Theorem c15_bytes_visitor_max_alloc : forall s : seq_src N,
  max_alloc (snd (bytes_visit_seq s)) <= 2 * N.of_nat (length (avail s)) + 4096.
Proof. exact bytes_visit_seq_max_alloc. Qed.

(** [from_reader::<Bytes>] on ANY byte string (byte string, base64 text, array, anything else),
    in terms of the input length: steps <= 4|b| + 1, every request <= max(4096, 2|b|) *)
Theorem c15_bytes_from_cbor : forall fuel b,
  fst (bytes_deserialize_cbor fuel b) <> Crash /\
  (steps (snd (bytes_deserialize_cbor fuel b)) <= 4 * length b + 1)%nat /\
  Forall (fun a => a <= N.max 4096 (2 * N.of_nat (length b))) (allocs (snd (bytes_deserialize_cbor fuel b))).
Proof. exact bytes_deserialize_cbor_cost. Qed.

Theorem c15_bytes_from_cbor_max_alloc : forall fuel b,
  max_alloc (snd (bytes_deserialize_cbor fuel b)) <= 2 * N.of_nat (length b) + 4096.
Proof. exact bytes_deserialize_cbor_max_alloc. Qed.

(** the F6 shape: an array head declaring more elements than bytes follow it is an error *)
Theorem c15_bytes_huge_declared_length : forall fuel b ai n rest,
  head_decode b = Some (4, ai, ArgN n, rest) -> N.of_nat (length rest) < n ->
  fst (bytes_deserialize_cbor fuel b) = Fail tt.
Proof. exact bytes_deserialize_cbor_truncated. Qed.

(** ** (b) [ignore_unknown_opt_vec] / [PossiblyUnknown] (utils/serde.rs) *)
Theorem c15_ignore_unknown_list : forall (V T : Type) (known : V -> option T) minc (s : seq_src V),
  fst (ignore_unknown_visit_seq known minc s) <> Crash /\
  (steps (snd (ignore_unknown_visit_seq known minc s)) <= length (avail s) + 1)%nat /\
  Forall (fun a => a <= N.max 1024 (N.max minc (2 * N.of_nat (length (avail s)))))
         (allocs (snd (ignore_unknown_visit_seq known minc s))).
Proof. exact @ignore_unknown_cost. Qed.

(** end of input before the declared count is an ERROR, not a list of "unknown" entries (F7) *)
Theorem c15_ignore_unknown_end_of_input_is_error :
  forall (V T : Type) (known : V -> option T) minc (s : seq_src V) n,
  hint s = Some n -> N.of_nat (length (avail s)) < n ->
  fst (ignore_unknown_visit_seq known minc s) = Fail tt.
Proof. exact @ignore_unknown_truncated. Qed.

(** a transports list read from ANY byte string: steps <= |b| + 1, requests <= max(1024, 2|b|) *)
Theorem c15_transports_from_cbor : forall fuel b,
  fst (transports_deserialize_cbor fuel b) <> Crash /\
  (steps (snd (transports_deserialize_cbor fuel b)) <= length b + 1)%nat /\
  Forall (fun a => a <= N.max 1024 (2 * N.of_nat (length b))) (allocs (snd (transports_deserialize_cbor fuel b))).
Proof. exact transports_deserialize_cbor_cost. Qed.

Theorem c15_transports_huge_declared_length : forall fuel b ai n rest,
  head_decode (skip_all_tags (length b) b) = Some (4, ai, ArgN n, rest) -> N.of_nat (length rest) < n ->
  fst (transports_deserialize_cbor fuel b) = Fail tt.
Proof. exact transports_deserialize_cbor_truncated. Qed.

(** ** (c) [public_key_der_from_cose_key]: no coordinate length reaches the length assertion of
    [GenericArray::from_slice] (the only [Crash] of the model) *)
Theorem c15_cose_to_der_total : forall k, fst (public_key_der_from_cose_key k) <> Crash.
Proof. exact cose_to_der_no_crash. Qed.

Theorem c15_cose_to_der_cost : forall k,
  steps (snd (public_key_der_from_cose_key k)) = S (length (ck_params k)) /\
  allocs (snd (public_key_der_from_cose_key k)) = [91].
Proof. exact cose_to_der_cost. Qed.

Theorem c15_cose_to_der_value : forall k der, fst (public_key_der_from_cose_key k) = Done der ->
  exists x y, scan_params (ck_params k) None None = Done (Some x, Some y) /\
              length x = 32%nat /\ length y = 32%nat /\ p256_point_ok x y = true /\
              der = SPKI_P256_HEADER ++ x ++ y /\ length der = 91%nat.
Proof. exact cose_to_der_done. Qed.

(** ** (d) [valid_fingerprint] (android.rs): 3 * rounds <= |s| + 4; the result vector never asks for
    more than max(8, |s| + 1) bytes; a value is 32 bytes read from exactly 95 characters *)
Theorem c15_fingerprint : forall s,
  fst (valid_fingerprint s) <> Crash /\
  (3 * steps (snd (valid_fingerprint s)) <= length s + 4)%nat /\
  Forall (fun a => a <= N.max 8 (N.of_nat (length s) + 1)) (allocs (snd (valid_fingerprint s))).
Proof. exact valid_fingerprint_cost. Qed.

Theorem c15_fingerprint_value : forall s v, fst (valid_fingerprint s) = Done v ->
  length v = 32%nat /\ length s = 95%nat /\ bytes_ok v.
Proof. exact valid_fingerprint_done. Qed.

(** ** (e) [Bytes::try_from(&str)]: the value is the one of Lib/Base64.v; at most two buffers, each at
    most 3/4 of the string; the result is at most 3/4 of the string *)
Theorem c15_bytes_from_str_value : forall s,
  fst (bytes_try_from_str_cost s) = match bytes_try_from_str s with Some b => Done b | None => Fail tt end.
Proof. exact bytes_try_from_str_value. Qed.

Theorem c15_bytes_from_str : forall s,
  fst (bytes_try_from_str_cost s) <> Crash /\
  (steps (snd (bytes_try_from_str_cost s)) <= 4 * length s)%nat /\
  Forall (fun a => 4 * a <= 3 * N.of_nat (length s)) (allocs (snd (bytes_try_from_str_cost s))) /\
  (length (allocs (snd (bytes_try_from_str_cost s))) <= 2)%nat /\
  (forall b, fst (bytes_try_from_str_cost s) = Done b -> (4 * length b <= 3 * length s)%nat).
Proof. exact bytes_try_from_str_cost_bound. Qed.

(** ** Re-exports: totality theorems proved with the models of the other decoders *)

(** CTAPHID (Hid/HidFacts.v): packets of any length in any order never panic; the invariant
    [table_inv] says every pending message holds at most its declared length (<= 65535) and a
    sequence number <= 128 *)
Theorem c15_hid_packet_total : forall t p, HidFacts.table_inv t -> bytes_ok p ->
  exists t' o, HidModel.handle_packet t p = HidModel.HP t' o /\ HidFacts.table_inv t'.
Proof. exact HidFacts.handle_packet_no_panic. Qed.

Theorem c15_hid_sequence_total : forall ps t, HidFacts.table_inv t -> Forall bytes_ok ps ->
  exists t' outs, HidModel.run t ps = Some (t', outs) /\ HidFacts.table_inv t' /\ length outs = length ps.
Proof. exact HidFacts.run_no_panic. Qed.

Theorem c15_hid_fresh_handler : HidFacts.table_inv [].
Proof. exact HidFacts.table_inv_empty. Qed.

(** U2F raw requests (Wire/U2fWireFacts.v): the frame parser is total and requests at most one
    allocation, at least 72 bytes smaller than the frame *)
Theorem c15_u2f_parser_total : forall value, U2fWire.request_try_from value <> U2fWire.Panic.
Proof. exact U2fWireFacts.request_try_from_no_panic. Qed.

Theorem c15_u2f_parser_cost : forall value,
  Forall (fun n => (n + 72 <= length value)%nat) (U2fWire.request_allocs value) /\
  (length (U2fWire.request_allocs value) <= 1)%nat.
Proof. exact U2fWireFacts.request_try_from_cost. Qed.

Theorem c15_u2f_register_parser_total : forall data, U2fWire.register_request_try_from data <> U2fWire.Panic.
Proof. exact U2fWireFacts.register_request_no_panic. Qed.

(** KNOWN FINDING u2f-auth-parameter-unreachable: the public [AuthenticationRequest::try_from(payload,
    p1)] panics exactly on the class below; outside it, never *)
Theorem c15_u2f_authenticate_parser_panic_class : forall data p1,
  U2fWire.authentication_request_try_from data p1 = U2fWire.Panic <->
  U2fWireFacts.auth_layout_ok data = true /\ U2fWire.is_control_byte p1 = false.
Proof. exact U2fWireFacts.authentication_request_panic_iff. Qed.

Theorem c15_u2f_authenticate_parser_total_outside_known_class : forall data p1,
  ~ u2f_auth_known_class data p1 ->
  U2fWire.authentication_request_try_from data p1 <> U2fWire.Panic.
Proof. exact u2f_auth_no_panic_outside_known_class. Qed.

Theorem c15_u2f_known_class_witness :
  exists data p1, u2f_auth_known_class data p1 /\
                  U2fWire.authentication_request_try_from data p1 = U2fWire.Panic.
Proof. exact u2f_auth_known_class_witness. Qed.

(** authenticator data (Wire/AuthDataFacts.v) *)
Theorem c15_authdata_total : forall v, AuthData.from_slice v <> AuthData.Panic.
Proof. exact AuthDataFacts.from_slice_no_panic. Qed.

(** public suffix lookups on the shipped table, every byte string (Psl/PslData.v) *)
Theorem c15_psl_total : forall d,
  PslModel.public_suffix PslShipped.TABLE d <> PslModel.Panic /\
  PslModel.effective_tld_plus_one PslShipped.TABLE d <> PslModel.Panic /\
  PslModel.is_effective_tld PslShipped.TABLE d <> PslModel.Panic.
Proof. exact PslData.no_panic. Qed.

(** Not re-exported: Wire/Serde*.v (C13) and the JSON layer (C14) model total functions without a
    panic outcome; RP ID checking (C01) has no model of url/idna.  Those decoders are covered by the
    isolated worker only. *)

(** non-vacuity / sensitivity: the shapes of F6, F7 and F10 on the models *)
Example c15_example_f6 :   (* 9b 00 00 01 00 00 00 00 00: an array of 2^40 elements, nothing behind it *)
  bytes_deserialize_cbor 256 [155; 0; 0; 1; 0; 0; 0; 0; 0] = (Fail tt, Cost 1 [4096]).
Proof. vm_compute. reflexivity. Qed.

Example c15_example_f7 :   (* 9a 7f ff ff ff "usb": 2^31-1 declared, one element available *)
  transports_deserialize_cbor 255 [154; 127; 255; 255; 255; 99; 117; 115; 98] = (Fail tt, Cost 2 [1024]).
Proof. vm_compute. reflexivity. Qed.

Example c15_example_f7_old_code : snd (@drive_eof_as_unknown N 3000 2000 []) = 2001%nat.
Proof. exact eof_as_unknown_refuted. Qed.

Example c15_example_f10_old_code :
  public_key_der_from_cose_key_unguarded
    (CoseKey (Assigned 2) (Some (Assigned (-7))) [(LInt (-2), Some [1]); (LInt (-3), Some [2])]) = Crash.
Proof. exact cose_to_der_unguarded_refuted. Qed.

Example c15_example_transports :   (* ["usb", 7, "ble", tag 1 "nfc", "wifi"] *)
  fst (transports_deserialize_cbor 255
        [133; 99; 117; 115; 98; 7; 99; 98; 108; 101; 193; 99; 110; 102; 99; 100; 119; 105; 102; 105])
  = Done (Some [0; 2; 1]).
Proof. vm_compute. reflexivity. Qed.

Print Assumptions c15_cbor_item_bounded.
Print Assumptions c15_bytes_visitor.
Print Assumptions c15_bytes_visitor_max_alloc.
Print Assumptions c15_bytes_from_cbor.
Print Assumptions c15_bytes_from_cbor_max_alloc.
Print Assumptions c15_bytes_huge_declared_length.
Print Assumptions c15_ignore_unknown_list.
Print Assumptions c15_ignore_unknown_end_of_input_is_error.
Print Assumptions c15_transports_from_cbor.
Print Assumptions c15_transports_huge_declared_length.
Print Assumptions c15_cose_to_der_total.
Print Assumptions c15_cose_to_der_cost.
Print Assumptions c15_cose_to_der_value.
Print Assumptions c15_fingerprint.
Print Assumptions c15_fingerprint_value.
Print Assumptions c15_bytes_from_str_value.
Print Assumptions c15_bytes_from_str.
Print Assumptions c15_hid_packet_total.
Print Assumptions c15_hid_sequence_total.
Print Assumptions c15_hid_fresh_handler.
Print Assumptions c15_u2f_parser_total.
Print Assumptions c15_u2f_parser_cost.
Print Assumptions c15_u2f_register_parser_total.
Print Assumptions c15_u2f_authenticate_parser_panic_class.
Print Assumptions c15_u2f_authenticate_parser_total_outside_known_class.
Print Assumptions c15_u2f_known_class_witness.
Print Assumptions c15_authdata_total.
Print Assumptions c15_psl_total.
