(** C12 - Authenticator data binary encoding follows the WebAuthn layout and round-trips.
    Statements only: each is closed by [exact] of a lemma proved in Wire/AuthDataFacts.v.

    Vocabulary (Wire/AuthData.v, Wire/AuthDataSpec.v, Wire/AuthDataFacts.v):
    - [Built sha256 ad]: [ad] was made by [AuthenticatorData::new] followed by any sequence of
      [set_flags] (flags within UP|UV|BE|BS), [set_attested_credential_data]
      (of an [AttestedCredentialData::new] that returned Ok), [set_make_credential_extensions],
      [set_assertion_extensions]; the side conditions in its constructors are the Rust types
      ([[u8; 32]] hash, [u32] counter, [[u8; 16]] aaguid, byte vectors shorter than 2^64) and
      [key_in_model] (a COSE key that coset reads back as itself; every EC2 key of
      [CoseKeyBuilder::new_ec2_pub_key(..)[.algorithm(..)]] is one, theorem (11)).
    - [layout ad]: rpIdHash(32) | flags(1) | counter(4, big endian)
                   | [aaguid(16) | idLen(2, big endian) | id | COSE key] | [extension map].
    - [parse_authdata_spec]: an independent decoder of WebAuthn 6.1 (AuthDataSpec.v).
    - [normalise ad]: [ad] with [counter := Some (counter or 0)]. *)
From PK Require Import Lib.Bytes Lib.Cbor Wire.AuthData Wire.AuthDataSpec Wire.AuthDataFacts.
Open Scope N_scope.

(** (1) encoding a built value never panics and yields exactly the layout *)
Theorem c12_encode_layout : forall sha256 ad, Built sha256 ad -> to_vec ad = Val (layout ad).
Proof. exact built_to_vec. Qed.

(** (2) the independent WebAuthn layout decoder reads every field back from those bytes, and
    nothing follows the last section *)
Theorem c12_layout_is_webauthn : forall sha256 ad, Built sha256 ad ->
  parse_authdata_spec (layout ad) = Some (fields_of ad).
Proof. exact built_spec. Qed.

(** (3) AT (bit 6) and ED (bit 7) are set exactly when the respective section is present; the
    reserved bits stay clear *)
Theorem c12_flags_iff_sections : forall sha256 ad, Built sha256 ad ->
  N.testbit (ad_flags ad) 6 = is_some (ad_acd ad) /\ N.testbit (ad_flags ad) 7 = is_some (ad_ext ad) /\
  N.land (ad_flags ad) FLAGS_RESERVED = 0.
Proof. exact built_flag_bits. Qed.

(** (4) decoding those bytes returns an equal value (an absent counter reads back as zero) *)
Theorem c12_round_trip : forall sha256 ad, Built sha256 ad -> from_slice (layout ad) = Val (normalise ad).
Proof. exact built_round_trip. Qed.

(** (5) inputs shorter than 37 bytes are rejected *)
Theorem c12_short_rejected : forall v, N.of_nat (length v) < 37 -> from_slice v = Err.
Proof. exact from_slice_short. Qed.

(** (6) reserved flag bits (0x02, 0x20) are rejected, whatever else the input holds *)
Theorem c12_reserved_rejected : forall v,
  37 <= N.of_nat (length v) -> N.land (nth 32 v 0) FLAGS_RESERVED <> 0 -> from_slice v = Err.
Proof. exact from_slice_reserved. Qed.

(** (7) a flagged section that is missing: AT or ED set and the input ends after the header *)
Theorem c12_missing_section_rejected : forall v,
  N.of_nat (length v) = 37 ->
  has_flag (nth 32 v 0) F_AT || has_flag (nth 32 v 0) F_ED = true -> from_slice v = Err.
Proof. exact from_slice_section_absent. Qed.

(** (8) a flagged section that is truncated: EVERY strict prefix of a valid encoding is rejected
    (cut inside the header, the aaguid, the id length, the id, the COSE key, between the
    sections when ED is set, or inside the extension map) *)
Theorem c12_truncation_rejected : forall sha256 ad, Built sha256 ad ->
  forall n, (n < length (layout ad))%nat -> from_slice (firstn n (layout ad)) = Err.
Proof. exact built_truncated. Qed.

(** (9) credential ids longer than 65535 bytes are refused at construction (and only those) *)
Theorem c12_long_id_refused : forall aaguid id key,
  65535 < N.of_nat (length id) -> acd_new aaguid id key = Err.
Proof. exact acd_new_too_long. Qed.

Theorem c12_id_accepted : forall aaguid id key, N.of_nat (length id) <= 65535 ->
  acd_new aaguid id key = Val {| acd_aaguid := aaguid; acd_cred_id := id; acd_key := key |}.
Proof. exact acd_new_ok. Qed.

(** (10) the decoder never panics, on any list of numbers (bytes or not) *)
Theorem c12_decoder_total : forall v, from_slice v <> Panic.
Proof. exact from_slice_no_panic. Qed.

(** (11) the EC2 public keys of [CoseKeyBuilder::new_ec2_pub_key(crv, x, y)], with or without
    [.algorithm(alg)] for a registered (or private-use) algorithm, are inside the model *)
Theorem c12_ec2_keys_in_model : forall crv x y alg,
  (0 <= crv < 18446744073709551616)%Z -> vec_ok x -> vec_ok y -> alg_ok alg ->
  key_in_model (ec2_pub_key crv x y alg).
Proof. exact ec2_key_in_model. Qed.

(** (12) the encoder's output is a byte string *)
Theorem c12_output_is_bytes : forall sha256 ad, Built sha256 ad -> bytes_ok (layout ad).
Proof. exact built_bytes_ok. Qed.

(** (13) every program of setter calls (as run by the correspondence harness) that starts from a
    built value and stays within the quantifier yields a built value *)
Theorem c12_setter_programs_are_built : forall sha256 steps ad ad',
  Built sha256 ad -> Forall step_ok steps -> run_steps ad steps = Val ad' -> Built sha256 ad'.
Proof. exact run_steps_built. Qed.

(** (14) the exact well-formedness behind (1)-(4), (8), (12): [Built] values satisfy [ad_wf]
    (32-byte hash of bytes, counter below 2^32, 16-byte aaguid, id of at most 65535 bytes, key and
    extension map [cbor_wf] with nesting depth below ciborium's limit, key read back by coset as
    itself, flag byte below 256 without reserved bits and with AT/ED matching the sections), and
    (1), (2), (4), (8) hold for every [ad_wf] value, whatever its other flag bits *)
Theorem c12_built_is_wf : forall sha256 ad, Built sha256 ad -> ad_wf ad.
Proof. exact built_wf. Qed.

Theorem c12_wf_encode_decode : forall ad, ad_wf ad ->
  to_vec ad = Val (layout ad) /\ parse_authdata_spec (layout ad) = Some (fields_of ad) /\
  from_slice (layout ad) = Val (normalise ad).
Proof. exact wf_encode_decode. Qed.

Theorem c12_wf_truncation_rejected : forall ad n, ad_wf ad ->
  (n < length (layout ad))%nat -> from_slice (firstn n (layout ad)) = Err.
Proof. exact from_slice_truncated. Qed.

(** non-vacuity: a registration-style value (flags, attested credential data with an ES256 key,
    hmac-secret output) satisfies [Built]; its encoding has all three parts *)
Definition ex_sha (_ : bytes) : bytes := repeat 7 32.
Definition ex_key : cbor := ec2_pub_key 1 (repeat 1 32) (repeat 2 32) (Some (-7)%Z).
Definition ex_ad : authdata :=
  set_make_credential_extensions
    (set_acd (set_flags (ad_new ex_sha [101] (Some 5)) 5)
             {| acd_aaguid := repeat 0 16; acd_cred_id := [170; 187]; acd_key := ex_key |})
    (Some (Some true, None)).

Example c12_example_built : Built ex_sha ex_ad.
Proof.
  apply B_mc.
  - apply (B_acd ex_sha _ (repeat 0 16) [170; 187] ex_key).
    + apply B_flags; [|reflexivity]. apply B_new; [reflexivity|apply Forall_forall; intros x Hx; apply repeat_spec in Hx; subst; reflexivity|].
      intros n [= <-]. reflexivity.
    + reflexivity.
    + apply bytes_ok_repeat0.
    + repeat constructor.
    + apply ec2_key_in_model; [split; [discriminate|reflexivity]| | |].
      * split; [apply Forall_forall; intros x Hx; apply repeat_spec in Hx; subst; reflexivity|reflexivity].
      * split; [apply Forall_forall; intros x Hx; apply repeat_spec in Hx; subst; reflexivity|reflexivity].
      * split; [reflexivity|left; reflexivity].
    + reflexivity.
  - intros hs x [=].
Qed.

Example c12_example_bytes :
  to_vec ex_ad = Val (repeat 7 32 ++ [221] ++ [0; 0; 0; 5]
                      ++ repeat 0 16 ++ [0; 2] ++ [170; 187]
                      ++ [165; 1; 2; 3; 38; 32; 1; 33; 88; 32] ++ repeat 1 32 ++ [34; 88; 32] ++ repeat 2 32
                      ++ [161; 107; 104; 109; 97; 99; 45; 115; 101; 99; 114; 101; 116; 245]).
Proof. vm_compute. reflexivity. Qed.

(** the hand-built struct with [extensions = Some _] and ED clear (pub field, no setter):
    [to_vec] emits the map without the flag; see [hand_built_ext_without_ed] *)
Check hand_built_ext_without_ed.

Print Assumptions c12_encode_layout.
Print Assumptions c12_layout_is_webauthn.
Print Assumptions c12_flags_iff_sections.
Print Assumptions c12_round_trip.
Print Assumptions c12_short_rejected.
Print Assumptions c12_reserved_rejected.
Print Assumptions c12_missing_section_rejected.
Print Assumptions c12_truncation_rejected.
Print Assumptions c12_long_id_refused.
Print Assumptions c12_id_accepted.
Print Assumptions c12_decoder_total.
Print Assumptions c12_ec2_keys_in_model.
Print Assumptions c12_output_is_bytes.
Print Assumptions c12_setter_programs_are_built.
Print Assumptions c12_built_is_wf.
Print Assumptions c12_wf_encode_decode.
Print Assumptions c12_wf_truncation_rejected.
