(** C03 - authentication returns a signature that verifies and is bound to the ceremony.
    Statements only; proofs are in Auth/C03Facts.v.

    The model: [Client.authenticate] over [Authenticator.get_assertion], programs over effects.
    ECDSA is NOT modelled arithmetically: the signature is the answer of the event [ESign key msg];
    the theorems say WHICH key signs WHICH message, and for an abstract scheme whose signer is correct
    ([signer_correct]) the returned signature then verifies.  That real signatures verify under the
    public key registered earlier (and that this key is a P-256 point equal to d*G) is checked on every
    run by an ECDSA verifier written in the driver (driver/ceremony.py), independent of the p256 crate.

    [AuthenticationRun c rp origin q cd tr au r0 cred0 d] (Auth/C03Facts.v) spells out a successful run:
       [EStoreInfo; EVerifEnabled; EPresenceEnabled]                       (get_info)
       ++ [EFind (allow list when non-empty) rp -> r0]                     cred0 = first of r0
       ++ user check showing cred0 / counter update / extension HMACs
       ++ [ESign d (authData ++ clientDataHash) -> signature]              d = private scalar of cred0. *)
From Coq Require Import ZArith.
From PK Require Import Lib.Sha256 Lib.Base64 Lib.Cbor Wire.AuthDataSpec.
From PK Require Import Auth.C03Facts.
Open Scope N_scope.

Theorem c03_run_shape : forall c rp origin q cd script tr au,
  interp (authenticate c (Ok rp) origin q cd) script = (tr, Some (Ok au)) ->
  exists r0 cred0 d, AuthenticationRun c rp origin q cd tr au r0 cred0 d.
Proof. exact authenticate_ok_inv. Qed.

(** exactly one signature is made, as the last event of the ceremony: with the private scalar of the
    selected credential, over the returned authenticator data followed by the client data hash
    (SHA-256 of the returned client data JSON, or the caller-supplied hash); the returned signature is
    its answer; nothing is saved and no key is generated *)
Theorem c03_signature : forall c rp origin q cd tr au r0 cred0 d,
  AuthenticationRun c rp origin q cd tr au r0 cred0 d ->
  filter (fun ea => is_sign (fst ea)) tr
  = [(ESign d (au_auth_data au ++ match cd with CdHash h => h | _ => sha256 (au_client_data_json au) end),
      ABytes (au_signature au))]
  /\ private_key (pk_key cred0) = Ok d
  /\ k_d (pk_key cred0) = Some d
  /\ (exists pre, tr = pre ++ [(ESign d (au_auth_data au ++ match cd with CdHash h => h | _ => sha256 (au_client_data_json au) end),
                               ABytes (au_signature au))])
  /\ filter (fun ea => is_save (fst ea)) tr = [] /\ filter (fun ea => is_keygen (fst ea)) tr = [].
Proof. exact arun_signature. Qed.

(** hence, for an abstract signature scheme with a correct signer, the signature verifies under the
    public point of that scalar over authData || clientDataHash *)
Theorem c03_verifies : forall (pub_of : bytes -> bytes * bytes) (verify : bytes * bytes -> bytes -> bytes -> bool)
  c rp origin q cd tr au r0 cred0 d,
  AuthenticationRun c rp origin q cd tr au r0 cred0 d ->
  (forall k m sg, In (ESign k m, ABytes sg) tr -> verify (pub_of k) m sg = true) ->
  verify (pub_of d) (au_auth_data au ++ match cd with CdHash h => h | _ => sha256 (au_client_data_json au) end) (au_signature au) = true.
Proof. exact arun_verifies. Qed.

(** the one lookup: for the effective RP ID, with the allow list exactly when it is non-empty; the
    credential used is the first one it returned *)
Theorem c03_lookup : forall c rp origin q cd tr au r0 cred0 d,
  AuthenticationRun c rp origin q cd tr au r0 cred0 d ->
  filter (fun ea => is_find (fst ea)) tr
  = [(EFind (match aq_allow q with Some ((_ :: _) as l) => Some l | _ => None end) rp, AFind r0)]
  /\ first_credential r0 = Ok cred0.
Proof. exact arun_lookup. Qed.

(** id and raw id agree and name that credential; the user handle returned is the one stored in it;
    the user was shown that credential and reported presence (and verification unless discouraged) *)
Theorem c03_ids_user_handle_consent : forall c rp origin q cd tr au r0 cred0 d,
  AuthenticationRun c rp origin q cd tr au r0 cred0 d ->
  au_raw_id au = pk_cred_id cred0 /\ au_id au = b64url_encode (au_raw_id au)
  /\ au_user_handle au = pk_user_handle cred0
  /\ exists uv p v, In (ECheckUser (Some cred0) true uv, ACheck (Ok (p, v))) tr /\ p = true /\ (aq_uv q <> UvDiscouraged -> v = true).
Proof. exact arun_ids. Qed.

(** client data JSON: type webauthn.get, the request's challenge (unpadded base64url) and the caller's
    origin *)
Theorem c03_client_data : forall c rp origin q cd tr au r0 cred0 d,
  AuthenticationRun c rp origin q cd tr au r0 cred0 d ->
  bytes_ok (aq_challenge q) ->
  cd_view (au_client_data_json au) =
    Some (T_GET, b64url_encode (aq_challenge q), origin,
          P_CROSS ++ match cd with CdExtra tail => tail | _ => [] end ++ [125])
  /\ b64url_decode (b64url_encode (aq_challenge q)) = Some (aq_challenge q)
  /\ ~ In 61 (b64url_encode (aq_challenge q)).
Proof. exact arun_client_data_view. Qed.

(** authenticator data, read with the layout decoder of the specification: rpIdHash = SHA-256 of the
    effective RP ID, AT and ED clear, no attested credential data, no extensions, UP set *)
Theorem c03_authenticator_data : forall c rp origin q cd tr au r0 cred0 d,
  AuthenticationRun c rp origin q cd tr au r0 cred0 d ->
  exists flags n,
    parse_authdata_spec (au_auth_data au) =
    Some {| f_rp_id_hash := sha256 rp; f_flags := flags; f_sign_count := n; f_acd := None; f_ext := None |}
    /\ N.testbit flags 6 = false /\ N.testbit flags 7 = false /\ N.testbit flags 0 = true.
Proof. exact arun_authdata. Qed.

(** given a store that follows the documented lookup contract (C05): the credential is one the store
    holds for the effective RP ID, and an id of the allow list when one was given *)
Theorem c03_registered_for_rp : forall c rp origin q cd tr au r0 cred0 d,
  AuthenticationRun c rp origin q cd tr au r0 cred0 d ->
  forall st,
  (forall ids rp' r1, In (EFind ids rp', AFind r1) tr -> contract_answer st ids rp' r1) ->
  In cred0 st /\ pk_rp_id cred0 = rp
  /\ (forall l, aq_allow q = Some l -> l <> [] -> In (au_raw_id au) l).
Proof. exact arun_registered_for_rp. Qed.

(** the user consents but no eligible credential exists (the lookup answers an empty list or
    NoCredentials): every finished run ends in an error, signs nothing and writes nothing; the error is
    CredentialNotFound as soon as the user check reported presence (and verification when required) *)
Theorem c03_no_credential : forall c rp origin q cd script tr res,
  interp (authenticate c (Ok rp) origin q cd) script = (tr, Some res) ->
  (forall ids rp' r0, In (EFind ids rp', AFind r0) tr -> r0 = Ok [] \/ r0 = Err CTAP2_NoCredentials) ->
  (exists e, res = Err e)
  /\ filter (fun ea => is_sign (fst ea)) tr = [] /\ filter (fun ea => mutates (fst ea)) tr = []
  /\ (forall cred up uv p v, In (ECheckUser cred up uv, ACheck (Ok (p, v))) tr ->
        implb up p && implb uv v = true -> res = Err WCredentialNotFound).
Proof. exact authenticate_no_credential. Qed.

(** on the reference store: the credential is stored for the effective RP ID; the store afterwards
    differs at most by that credential's counter *)
Theorem c03_store_step : forall c rp origin q cd st disc script st' tr au,
  exec (authenticate c (Ok rp) origin q cd) st disc script = (st', tr, Some (Ok au)) ->
  exists r0 cred0 d,
    AuthenticationRun c rp origin q cd tr au r0 cred0 d
    /\ In cred0 st /\ pk_rp_id cred0 = rp
    /\ (forall l, aq_allow q = Some l -> l <> [] -> In (au_raw_id au) l)
    /\ st' = match pk_counter cred0 with Some n => put st (bump_counter cred0 n) | None => st end.
Proof. exact authenticate_store_step. Qed.

(** Histories.  [wrun] executes a list of registrations and authentications (each with the script
    answering its non-store effects) on the reference store and maintains the registry: a successful
    registration binds the returned raw id to the key pair its key generation answered and to its
    effective RP ID ([registered_entry]).  Invariant [Registry]: every stored passkey holds the key
    material and RP ID the registry records for its id.  It holds initially for any store with unique
    ids and the registry read off it, and along every history of completed ceremonies. *)
Theorem c03_registry_initial : forall st, unique_ids st -> Registry st (registry_of_store st).
Proof. exact registry_of_store_ok. Qed.

Theorem c03_registration_entry : forall domain tr res,
  registered_entry domain tr res =
  match res, domain, first_keygen tr with
  | Some (Ok cr), Ok rp, Some (d, x, y) =>
      Some (cr_raw_id cr, ({| k_es256 := true; k_ec2 := true; k_d := Some d; k_x := x; k_y := y |}, rp))
  | _, _, _ => None
  end.
Proof. exact registered_entry_def. Qed.

Theorem c03_registry_invariant : forall h disc st reg,
  wcomplete h st reg disc -> unique_ids st -> Registry st reg ->
  unique_ids (fst (wrun h st reg disc)) /\ Registry (fst (wrun h st reg disc)) (snd (wrun h st reg disc)).
Proof. exact registry_invariant. Qed.

(** a successful authentication in any state satisfying the invariant: the one signature is made with
    the private scalar the registry holds for the returned id, whose registered RP ID is the effective
    RP ID; the user handle is the one stored under that id *)
Theorem c03_authentication_in_history : forall c rp origin q cd st reg disc script st' tr au,
  unique_ids st -> Registry st reg ->
  exec (authenticate c (Ok rp) origin q cd) st disc script = (st', tr, Some (Ok au)) ->
  exists key d stored,
    reg_lookup reg (au_raw_id au) = Some (key, rp)
    /\ private_key key = Ok d
    /\ filter (fun ea => is_sign (fst ea)) tr
       = [(ESign d (au_auth_data au ++ match cd with CdHash h => h | _ => sha256 (au_client_data_json au) end),
           ABytes (au_signature au))]
    /\ get_by_id st (au_raw_id au) = Some stored
    /\ pk_key stored = key /\ pk_rp_id stored = rp /\ au_user_handle au = pk_user_handle stored.
Proof. exact authenticate_in_registry. Qed.

Theorem c03_history_verifies : forall (pub_of : bytes -> bytes * bytes) (verify : bytes * bytes -> bytes -> bytes -> bool)
  c rp origin q cd st reg disc script st' tr au,
  unique_ids st -> Registry st reg ->
  exec (authenticate c (Ok rp) origin q cd) st disc script = (st', tr, Some (Ok au)) ->
  (forall k m sg, In (ESign k m, ABytes sg) tr -> verify (pub_of k) m sg = true) ->
  exists key d, reg_lookup reg (au_raw_id au) = Some (key, rp) /\ k_d key = Some d
    /\ verify (pub_of d) (au_auth_data au ++ match cd with CdHash h => h | _ => sha256 (au_client_data_json au) end) (au_signature au) = true.
Proof. exact authenticate_verifies. Qed.

(** non-vacuity: a history of one registration and one authentication on the empty reference store
    that both succeed, and an authentication with no credential that ends in CredentialNotFound *)
Definition ex_config : config :=
  {| c_aaguid := repeat 0 16; c_algs := [ES256]; c_counter := true; c_id_len := 16; c_hmac := None |}.
Definition ex_reg : reg_request :=
  {| rq_rp_id := None; rq_rp_name := [82]; rq_user := {| u_id := [1; 2]; u_name := Some [119]; u_display := Some [87] |};
     rq_challenge := [0; 255; 16]; rq_params := []; rq_exclude := None; rq_selection := None; rq_ext := None |}.
Definition ex_auth : auth_request :=
  {| aq_rp_id := None; aq_challenge := [7; 7]; aq_allow := None; aq_uv := UvPreferred; aq_ext := None |}.
Definition ex_origin : bytes := [104; 116; 116; 112; 115; 58; 47; 47; 97; 46; 98].
Definition ex_history : list (wop * list answer) :=
  [(WRegister ex_config (Ok [97; 46; 98]) ex_origin ex_reg CdDefault,
    [AOptBool (Some true); ABool true; AOptBool (Some true); ACheck (Ok (true, true));
     ABytes (repeat 9 16); AKey (repeat 1 32) (repeat 2 32) (repeat 3 32)]);
   (WAuthenticate ex_config (Ok [97; 46; 98]) ex_origin ex_auth CdDefault,
    [AOptBool (Some true); ABool true; AOptBool (Some true); ACheck (Ok (true, true)); ABytes [48; 0]])].

Example c03_example_history :
  let '(st, reg) := wrun ex_history [] [] Full in
  map pk_cred_id st = [repeat 9 16] /\ map pk_counter st = [Some 1]
  /\ reg_lookup reg (repeat 9 16)
     = Some ({| k_es256 := true; k_ec2 := true; k_d := Some (repeat 1 32); k_x := repeat 2 32; k_y := repeat 3 32 |}, [97; 46; 98]).
Proof. vm_compute. repeat split. Qed.

Example c03_example_success :
  exists st' tr au,
    exec (authenticate ex_config (Ok [97; 46; 98]) ex_origin ex_auth CdDefault) (fst (wrun (firstn 1 ex_history) [] [] Full)) Full
         [AOptBool (Some true); ABool true; AOptBool (Some true); ACheck (Ok (true, true)); ABytes [48; 0]]
    = (st', tr, Some (Ok au)) /\ au_signature au = [48; 0] /\ au_raw_id au = repeat 9 16.
Proof. eexists. eexists. eexists. split; [vm_compute; reflexivity|]. split; reflexivity. Qed.

Example c03_example_not_found :
  snd (interp (authenticate ex_config (Ok [97; 46; 98]) ex_origin ex_auth CdDefault)
         [AInfo Full; AOptBool (Some true); ABool true; AFind (Ok []); AOptBool (Some true); ACheck (Ok (true, true))])
  = Some (Err WCredentialNotFound).
Proof. vm_compute. reflexivity. Qed.

(** *** source order of the client's authentication ceremony (lists regenerated from passkey-client/src/lib.rs and
    passkey-authenticator/src on every run): every run of the model's [authenticate] performs its effects in the order
    of [Client::authenticate] with [Authenticator::get_assertion] expanded to its own source skeleton *)
From Coq Require Import String.
From PK Require Auth.SkeletonFacts Auth.ClientSkeletonFacts Auth.ClientSource Auth.gen.ClientSkeleton Auth.gen.Skeleton.
Theorem c03_client_authenticate_in_source_order : forall c domain origin q cd script,
  SkeletonFacts.subseq (map (fun ea : eff * answer => SkeletonFacts.kind (fst ea)) (fst (interp (Client.authenticate c domain origin q cd) script)))
                       (ClientSkeletonFacts.cskeleton ClientSkeleton.SRC_CLIENT_AUTHENTICATE).
Proof. exact ClientSkeletonFacts.client_authenticate_effects_in_source_order. Qed.
Theorem c03_client_authenticate_source_is_the_modelled_one :
  ClientSkeleton.SRC_CLIENT_AUTHENTICATE = ClientSource.EXP_CLIENT_AUTHENTICATE.
Proof. exact ClientSource.src_client_authenticate_order. Qed.
Theorem c03_client_authenticate_source_facts :
  (OrderList.before "TypeGet" "GetAssertion" ClientSkeleton.SRC_CLIENT_AUTHENTICATE = true
  /\ OrderList.first_pos "TypeCreate" ClientSkeleton.SRC_CLIENT_AUTHENTICATE = None
  /\ OrderList.before "ClientDataHash" "GetAssertion" ClientSkeleton.SRC_CLIENT_AUTHENTICATE = true
  /\ OrderList.before "GetAssertion" "IntoWebauthnError" ClientSkeleton.SRC_CLIENT_AUTHENTICATE = true
  /\ OrderList.first_pos "MakeCredential" ClientSkeleton.SRC_CLIENT_AUTHENTICATE = None
  /\ OrderList.before "Update" "Sign" Skeleton.SRC_GET_ASSERTION = true
  /\ last Skeleton.SRC_GET_ASSERTION "" = "Sign")%string.
Proof. vm_compute. repeat split. Qed.

(** *** the stored private scalar: which stored octet strings are a usable key, and which integer signs

    [keymat.k_d] is "the scalar when present and well formed" ([Auth.Scalar], the reading of [SecretKey::from_slice]); the
    correspondence hands the model the D parameter as stored and the model normalises it with [scalar_of_stored].  A
    well-formed scalar has 24 to 32 octets, the ceremonies see its 32-octet form, and that form denotes the SAME integer
    (padding is on the left) - so the key that signs is the one whose public point the relying party holds; everything
    else (shorter, longer, zero, the group order and above, absent) is an unusable credential. *)
Theorem c03_stored_scalar_well_formed : forall d s, scalar_well_formed d = Some s ->
  List.length s = 32%nat /\ scalar_be 0 s = scalar_be 0 d /\ (0 < scalar_be 0 s < p256_order)%N /\ (24 <= List.length d <= 32)%nat.
Proof. exact scalar_well_formed_spec. Qed.
Theorem c03_stored_scalar_refused : forall d,
  ((List.length d < 24)%nat \/ (32 < List.length d)%nat \/ scalar_be 0 d = 0%N \/ (p256_order <= scalar_be 0 d)%N) <-> scalar_well_formed d = None.
Proof. exact scalar_refused. Qed.
Theorem c03_stored_scalar_normal_form : forall d s, scalar_well_formed d = Some s -> scalar_well_formed s = Some s.
Proof. exact scalar_well_formed_idempotent. Qed.
(** an unusable scalar is an error of the ceremony, never a signature *)
Theorem c03_unusable_key_is_an_error : forall k, scalar_of_stored None = None /\
  (k_d k = None -> k_es256 k = true -> k_ec2 k = true -> private_key k = Err CTAP2_InvalidCredential).
Proof.
  intros k. split; [reflexivity|]. intros Hd H1 H2. unfold private_key. rewrite H1, H2, Hd. reflexivity.
Qed.

Print Assumptions c03_run_shape.
Print Assumptions c03_signature.
Print Assumptions c03_verifies.
Print Assumptions c03_lookup.
Print Assumptions c03_ids_user_handle_consent.
Print Assumptions c03_client_data.
Print Assumptions c03_authenticator_data.
Print Assumptions c03_registered_for_rp.
Print Assumptions c03_no_credential.
Print Assumptions c03_store_step.
Print Assumptions c03_registry_initial.
Print Assumptions c03_registration_entry.
Print Assumptions c03_registry_invariant.
Print Assumptions c03_authentication_in_history.
Print Assumptions c03_history_verifies.
Print Assumptions c03_client_authenticate_in_source_order.
Print Assumptions c03_client_authenticate_source_is_the_modelled_one.
Print Assumptions c03_client_authenticate_source_facts.
Print Assumptions c03_stored_scalar_well_formed.
Print Assumptions c03_stored_scalar_refused.
Print Assumptions c03_stored_scalar_normal_form.
Print Assumptions c03_unusable_key_is_an_error.
