(** C18 - the sealed CTAP2 API trait behaves exactly like the direct authenticator methods.
    [CTAP2_API] is GENERATED from passkey-authenticator/src/ctap2.rs and the inherent method
    definitions on every run (receiver kinds, forwarding expression form, bound implication). *)
From PK Require Import Disp.Dispatch Disp.gen.DispatchFacts.
From Coq Require Import String List. Import ListNotations.

(** every method of the forwarding impl resolves to the inherent method (by computation on the
    generated facts: a change of receiver, bound or forwarding form that makes one resolve to the
    trait method itself breaks this proof) *)
Theorem c18_all_forward_to_inherent : all_inherent CTAP2_API = true.
Proof. vm_compute. reflexivity. Qed.

(** hence a call through the trait terminates and yields exactly what the direct method yields
    (result and effects: [direct] stands for the whole behaviour of the direct method, which the
    ceremony model describes and the correspondence run compares call by call) *)
Theorem c18_trait_call_is_direct_call : forall name f, In (name, f) CTAP2_API ->
  forall A (direct : A) fuel, call (S fuel) f direct = Done direct.
Proof. exact (all_inherent_spec CTAP2_API c18_all_forward_to_inherent). Qed.

(** the three operations are covered *)
Theorem c18_covers_the_api : map fst CTAP2_API = ["get_info"; "make_credential"; "get_assertion"]%string.
Proof. vm_compute. reflexivity. Qed.

(** what goes wrong otherwise: a forwarding expression that resolves to the trait method never
    returns (the defect repaired by the fix commit: `self.get_assertion(..)` with `&self` in the
    trait and `&mut self` on the inherent method) *)
Theorem c18_self_resolution_diverges : forall A f (direct : A),
  resolve f = TraitItself -> forall fuel, call fuel f direct = OutOfFuel.
Proof. intros A f direct. exact (call_diverges f direct). Qed.

Example c18_prefix_defect :
  resolve {| trait_recv := ByRef; inh_recv := ByMut; fwd_kind := ViaMethodCall; bounds_implied := false |} = TraitItself.
Proof. reflexivity. Qed.

Print Assumptions c18_all_forward_to_inherent.
Print Assumptions c18_trait_call_is_direct_call.
Print Assumptions c18_covers_the_api.
Print Assumptions c18_self_resolution_diverges.
