(** C07 - failed or cancelled ceremonies leave the credential store consistent.
    Statements only; proofs in Auth/StoreFacts.v and Auth/History.v.
    The theorems quantify over EVERY answer script: every store call (lookup, capability query, save,
    update) may be answered with any status code, singly or combined; an answer of the wrong shape or
    a script that ends early is a ceremony cut at that point (cancellation at a suspension point). *)
From PK Require Import Auth.History.
Open Scope N_scope.

(** Registration ([j_make], Auth/StoreFacts.v): over the list of store-related events of any
    execution - at most one mutating call; it is the save of the complete passkey the response
    describes (request's RP ID, user handle as discoverability says, counter as configured, private
    key whose public half is attested) and it is the LAST event; the result is Ok only if that save
    was answered Ok, and an error answer of the save is the result. *)
Theorem c07_registration : forall c q script,
  j_make c q (filter (fun ea => storeI (fst ea)) (fst (interp (make_credential c q) script)))
             (snd (interp (make_credential c q) script)) = true.
Proof. exact make_credential_store_all. Qed.

(** in plain terms: the mutating calls of any (failed, cancelled, successful) registration *)
Theorem c07_registration_mutations : forall c q evs res,
  j_make c q evs res = true ->
  filter (fun ea => mutates (fst ea)) evs = []
  \/ exists pre p u rp o a,
       evs = pre ++ [(ESave p u rp o, a)] /\ filter (fun ea => mutates (fst ea)) pre = []
       /\ (a = AUnit (Ok tt) -> exists r, res = Some (Ok r)).
Proof. exact j_make_mutations. Qed.

(** Assertion ([j_get]): the only possible mutation is one update of the selected credential with
    only its counter advanced by one (saturating); it comes before the signature; an Ok result implies
    the update (when the credential has a counter) was answered Ok; an error answer of the update is
    the result. *)
Theorem c07_assertion : forall ad_bytes c q script,
  j_get ad_bytes q (filter (fun ea => storeI (fst ea)) (fst (interp (get_assertion ad_bytes c q) script)))
                   (snd (interp (get_assertion ad_bytes c q) script)) = true.
Proof. exact get_assertion_store_all. Qed.

Theorem c07_assertion_mutations : forall ad_bytes q evs res,
  j_get ad_bytes q evs res = true ->
  filter (fun ea => mutates (fst ea)) evs = []
  \/ exists ids rp r0 rest cred0 n a rest',
       evs = (EFind ids rp, AFind r0) :: rest /\ first_credential r0 = Ok cred0 /\ pk_counter cred0 = Some n
       /\ rest = (EUpdate (bump_counter cred0 n), a) :: rest'
       /\ filter (fun ea => mutates (fst ea)) rest' = [].
Proof. exact j_get_mutations. Qed.

(** against a store that honours saves and updates: a registration that does not return Ok leaves
    the store exactly as it was; one that returns Ok added exactly the described passkey *)
Theorem c07_registration_on_store : forall c q st d script st' tr res,
  exec (make_credential c q) st d script = (st', tr, res) ->
  match res with
  | Some (Ok r) => exists p, st' = put st p /\ saved_passkey_ok c q d p = true /\ response_matches c q p r = true
  | _ => st' = st
  end.
Proof. exact make_step. Qed.

(** ... and any assertion, whatever its outcome, leaves the store unchanged except that the
    selected credential's counter may have advanced by one *)
Theorem c07_assertion_on_store : forall ad_bytes c q st d script st' tr res,
  exec (get_assertion ad_bytes c q) st d script = (st', tr, res) ->
  st' = st \/ exists cred0 n, In cred0 st /\ pk_rp_id cred0 = ga_rp_id q /\ pk_counter cred0 = Some n
                              /\ st' = put st (bump_counter cred0 n).
Proof. exact assert_step_any. Qed.

(** *** tie to the source text (regenerated on every run): the save is the last thing the body of
    make_credential mentions, after every fallible step; assertions and U2F authentications mention no save *)
From Coq Require Import String.
From PK Require Import Auth.gen.Skeleton Auth.SkeletonFacts.
Open Scope string_scope.
Theorem c07_source_save_is_last :
  last SRC_MAKE_CREDENTIAL "" = "Save"
  /\ before "MakeExt" "Save" SRC_MAKE_CREDENTIAL = true
  /\ before "ChooseAlg" "Save" SRC_MAKE_CREDENTIAL = true
  /\ before "GetInfo" "Save" SRC_MAKE_CREDENTIAL = true
  /\ before "Sign" "Save" SRC_U2F_REGISTER = true
  /\ first_pos "Save" SRC_GET_ASSERTION = None
  /\ first_pos "Save" SRC_U2F_AUTHENTICATE = None /\ first_pos "Update" SRC_U2F_AUTHENTICATE = None.
Proof. exact source_save_is_last. Qed.
Theorem c07_source_order_get_assertion : forall adb c q, follows (skeleton SRC_GET_ASSERTION) (get_assertion adb c q).
Proof. exact get_assertion_follows_source_order. Qed.

Print Assumptions c07_registration.
Print Assumptions c07_registration_mutations.
Print Assumptions c07_assertion.
Print Assumptions c07_assertion_mutations.
Print Assumptions c07_registration_on_store.
Print Assumptions c07_assertion_on_store.
Print Assumptions c07_source_save_is_last.
Print Assumptions c07_source_order_get_assertion.
