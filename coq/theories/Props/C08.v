(** C08 - signature counters strictly increase and equal what the store holds.
    Statements only; proofs in Auth/StoreFacts.v and Auth/History.v. *)
From PK Require Import Auth.History.
Open Scope N_scope.

(** the counter arithmetic of the ceremony: +1 below the 32-bit maximum, unchanged at it (never
    wraps, never panics: [counter_next] is what the code does since the saturating_add fix) *)
Theorem c08_counter_next_below_max : forall n, n < 4294967295 -> counter_next n = n + 1.
Proof. exact counter_next_lt. Qed.

Theorem c08_counter_never_decreases : forall n, n <= counter_next n.
Proof. exact counter_next_ge. Qed.

(** registration: the passkey saved carries counter 0 when counters are enabled and none otherwise,
    and the response reports exactly that ([saved_passkey_ok], [response_matches] in [j_make]) *)
Theorem c08_registration : forall c q script,
  j_make c q (filter (fun ea => storeI (fst ea)) (fst (interp (make_credential c q) script)))
             (snd (interp (make_credential c q) script)) = true.
Proof. exact make_credential_store_all. Qed.

(** one successful assertion against a store with unique credential ids: the counter reported is the
    value the store holds afterwards for that credential - one step ([counter_next]) above the value
    held before - or nothing for a credential without a counter, which is not rewritten; every other
    credential is untouched *)
Theorem c08_assertion_step : forall ad_bytes c q st d script st' tr r,
  unique_ids st ->
  exec (get_assertion ad_bytes c q) st d script = (st', tr, Some (Ok r)) ->
  ad_counter (gr_auth_data r) = stored_counter st' (gr_cred_id r)
  /\ match stored_counter st (gr_cred_id r) with
     | Some n => ad_counter (gr_auth_data r) = Some (counter_next n)
     | None => ad_counter (gr_auth_data r) = None /\ st' = st
     end
  /\ (forall id, id <> gr_cred_id r -> get_by_id st' id = get_by_id st id)
  /\ unique_ids st'.
Proof. exact assert_step_counter. Qed.

(** every reachable store has unique credential ids, so the step theorem applies along any history
    of registrations and assertions with any outcomes *)
Theorem c08_reachable_stores : forall ad_bytes h d st, unique_ids st -> unique_ids (run_history ad_bytes h st d).
Proof. exact history_unique. Qed.

(** over any sequence of assertions, interleaved over any credentials, successful or not, the
    counter stored for a credential never decreases *)
Theorem c08_history_monotone : forall ad_bytes h d st id n,
  only_assertions h -> unique_ids st -> stored_counter st id = Some n ->
  exists n', stored_counter (run_history ad_bytes h st d) id = Some n' /\ n <= n'.
Proof. exact history_counters_monotone. Qed.

(** a failed or cancelled assertion moves a stored counter by at most one step (C07 allows exactly
    that), so "one greater than the previous report" holds between successful assertions with no
    failed assertion on the same credential in between *)
Theorem c08_any_assertion_step : forall ad_bytes c q st d script st' tr res id n,
  unique_ids st ->
  exec (get_assertion ad_bytes c q) st d script = (st', tr, res) ->
  stored_counter st id = Some n ->
  unique_ids st' /\ exists n', stored_counter st' id = Some n' /\ n <= n' <= n + 1.
Proof. exact assert_any_monotone. Qed.

(** *** the counter in the source as it is now (lists regenerated from passkey-authenticator/src on every run): the only
    arithmetic in any ceremony is the single [saturating_add(1)] of an assertion; it comes before the one store update,
    which comes before the authenticator data that reports the value is built, which comes before the signature; a
    registration starts at zero; U2F authentication does no arithmetic at all *)
From Coq Require Import String.
From PK Require Auth.SkeletonFacts Auth.gen.Skeleton Auth.OrderList.
Theorem c08_counter_in_source :
 (OrderList.before "SatAdd1" "Update" Skeleton.SRC_GET_ASSERTION = true
  /\ OrderList.before "Update" "NewAuthData" Skeleton.SRC_GET_ASSERTION = true
  /\ OrderList.before "NewAuthData" "Sign" Skeleton.SRC_GET_ASSERTION = true
  /\ count_occ string_dec Skeleton.SRC_GET_ASSERTION "SatAdd1" = 1%nat
  /\ count_occ string_dec Skeleton.SRC_GET_ASSERTION "Update" = 1%nat
  /\ OrderList.first_pos "Arith" Skeleton.SRC_GET_ASSERTION = None /\ OrderList.first_pos "Arith" Skeleton.SRC_MAKE_CREDENTIAL = None
  /\ OrderList.first_pos "Arith" Skeleton.SRC_U2F_REGISTER = None /\ OrderList.first_pos "Arith" Skeleton.SRC_U2F_AUTHENTICATE = None
  /\ OrderList.first_pos "Arith" Skeleton.SRC_CHECK_USER = None
  /\ OrderList.first_pos "SatAdd1" Skeleton.SRC_MAKE_CREDENTIAL = None /\ OrderList.first_pos "SatAdd1" Skeleton.SRC_U2F_AUTHENTICATE = None
  /\ OrderList.before "CounterStart0" "NewAuthData" Skeleton.SRC_MAKE_CREDENTIAL = true
  /\ OrderList.before "NewAuthData" "Save" Skeleton.SRC_MAKE_CREDENTIAL = true)%string.
Proof. exact SkeletonFacts.source_counter_facts. Qed.
Theorem c08_assertion_source_is_the_modelled_one : Skeleton.SRC_GET_ASSERTION = SkeletonFacts.EXP_GET_ASSERTION.
Proof. exact SkeletonFacts.src_get_assertion_order. Qed.

Print Assumptions c08_counter_next_below_max.
Print Assumptions c08_counter_never_decreases.
Print Assumptions c08_registration.
Print Assumptions c08_assertion_step.
Print Assumptions c08_reachable_stores.
Print Assumptions c08_history_monotone.
Print Assumptions c08_any_assertion_step.
Print Assumptions c08_counter_in_source.
Print Assumptions c08_assertion_source_is_the_modelled_one.
