(** C04 - no credential is created or used without user consent; flags are truthful.
    Statements only; proofs are in Auth/C04Facts.v.

    The property is stated as a monitor over the trace of trait calls and internal events of a
    ceremony ([c04_step]) and a final judgement on (monitor state, result) ([c04_judge_mc],
    [c04_judge_ga]); [c04_violation_bit_meaning] says in plain terms what the monitor's violation bit
    means.  The theorems hold for EVERY request, configuration and answer script - every store
    content, user answer, fault, wrong-shaped answer, and every script that ends early (the
    ceremony is cancelled there): a superset of the finite product in the property's quantifier. *)
From PK Require Import Auth.C04Facts.
Open Scope N_scope.

(** Registration. For every execution: no Save/Update/Sign before a user check that reported
    presence when required and verification when required; and if the result is Ok then presence
    was requested (up), the verification capability was Some(true) whenever uv was requested, and
    the UP / UV bits of the authenticator data equal exactly what the user check reported. *)
Theorem c04_make_credential : forall c q script,
  c04_judge_mc (mc_opts q)
    (run_monitor (c04_step (mc_opts q)) c04_init (fst (interp (make_credential c q) script)))
    (snd (interp (make_credential c q) script)) = true.
Proof. exact C04Facts.c04_make_credential. Qed.

(** Assertion. As above, and the credential shown to the user at the consent step is the one whose
    id is returned (the one that signs). *)
Theorem c04_get_assertion : forall ad_bytes c q script,
  c04_judge_ga (ga_opts q)
    (run_monitor (c04_step (ga_opts q)) c04_init (fst (interp (get_assertion ad_bytes c q) script)))
    (snd (interp (get_assertion ad_bytes c q) script)) = true.
Proof. exact C04Facts.c04_get_assertion. Qed.

(** The violation bit stays clear iff every store mutation and every signature in the trace comes
    after a sufficient user check. *)
Theorem c04_violation_bit_meaning : forall o tr s,
  s_viol (run_monitor (c04_step o) s tr) = false <->
  s_viol s = false /\ consent_first o (match s_consent s with Some _ => true | None => false end) tr = true.
Proof. exact viol_meaning. Qed.

(** non-vacuity: a script on which registration succeeds (so the Ok branch of the judgement is
    exercised), and one where the user denies *)
Example c04_example_ok :
  let q := {| mc_cdh := []; mc_rp := {| rp_id := [97]; rp_name := None |};
              mc_user := {| u_id := [1]; u_name := None; u_display := None |}; mc_params := [ES256];
              mc_exclude := None; mc_ext := None; mc_opts := {| o_rk := false; o_up := true; o_uv := true |};
              mc_pin_auth := false |} in
  let c := {| c_aaguid := []; c_algs := [ES256]; c_counter := true; c_id_len := 16; c_hmac := None |} in
  exists r, snd (interp (make_credential c q)
       [AOptBool (Some true); ACheck (Ok (true, true)); ABytes [9]; AKey [1] [2] [3]; AInfo Full; AUnit (Ok tt)])
     = Some (Ok r) /\ ad_flags (mr_auth_data r) = 93.
Proof. eexists. split; reflexivity. Qed.

(** *** tie to the source text, regenerated on every run (translators/ceremony_skeleton.py): the order in which
    the bodies of check_user / make_credential / get_assertion mention their calls is the order the model
    performs them in, on every path, for every request and answer script *)
From Coq Require Import String.
From PK Require Import Auth.gen.Skeleton Auth.SkeletonFacts.
Open Scope string_scope.
Theorem c04_source_order_make_credential : forall c q, follows (skeleton SRC_MAKE_CREDENTIAL) (make_credential c q).
Proof. exact make_credential_follows_source_order. Qed.
Theorem c04_source_order_get_assertion : forall adb c q, follows (skeleton SRC_GET_ASSERTION) (get_assertion adb c q).
Proof. exact get_assertion_follows_source_order. Qed.
Theorem c04_source_order_check_user : forall o cred, follows (skeleton SRC_CHECK_USER) (check_user o cred).
Proof. exact check_user_follows_source_order. Qed.
Theorem c04_source_order_on_runs : forall c q script,
  subseq (map (fun ea => kind (fst ea)) (fst (interp (make_credential c q) script))) (skeleton SRC_MAKE_CREDENTIAL).
Proof. exact make_credential_effects_in_source_order. Qed.
Theorem c04_source_consent_precedes_effects :
  before "CheckUser" "Find" SRC_MAKE_CREDENTIAL = true
  /\ before "CheckUser" "Rand" SRC_MAKE_CREDENTIAL = true
  /\ before "CheckUser" "KeyGen" SRC_MAKE_CREDENTIAL = true
  /\ before "CheckUser" "Save" SRC_MAKE_CREDENTIAL = true
  /\ before "CheckUser" "Update" SRC_GET_ASSERTION = true
  /\ before "CheckUser" "Sign" SRC_GET_ASSERTION = true
  /\ before "Update" "Sign" SRC_GET_ASSERTION = true
  /\ before "VerifEnabled" "UvCheck" SRC_CHECK_USER = true.
Proof. exact source_consent_precedes_effects. Qed.

(** *** the WebAuthn entry points (passkey-client): every successful client ceremony contains an authenticator
    ceremony with up = true and uv = "verification not discouraged" on whose own trace the judgement above holds *)
From PK Require Import Auth.Client Auth.C11Facts Auth.C04Client.
Theorem c04_register_client : forall c domain origin q cd script tr cr,
  interp (register c domain origin q cd) script = (tr, Some (Ok cr)) ->
  exists d0 uv up rk tr_mc resp tr_fin,
    tr = info_events d0 uv up ++ tr_mc ++ tr_fin
    /\ no_save tr_fin
    /\ let o := client_options rk (option_map sel_uv (rq_selection q)) in
       c04_judge_mc o (run_monitor (c04_step o) c04_init tr_mc) (Some (Ok resp)) = true.
Proof. exact register_consent. Qed.

Theorem c04_authenticate_client : forall c domain origin q cd script tr au,
  interp (authenticate c domain origin q cd) script = (tr, Some (Ok au)) ->
  exists d0 uv up tr_ga resp,
    tr = info_events d0 uv up ++ tr_ga
    /\ let o := client_options false (Some (aq_uv q)) in
       c04_judge_ga o (run_monitor (c04_step o) c04_init tr_ga) (Some (Ok resp)) = true.
Proof. exact authenticate_consent. Qed.

(** required (and preferred, and absent) verification reaches the authenticator as uv = true; only "discouraged" does not *)
Theorem c04_client_uv_mapping :
  uv_option (Some UvRequired) = true /\ uv_option (Some UvPreferred) = true /\ uv_option None = true
  /\ uv_option (Some UvDiscouraged) = false.
Proof. repeat split. Qed.

(** ... and a ceremony with uv = true succeeds only when the verification capability answered Some(true) *)
Theorem c04_required_verification_needs_capability : forall o s resp, o_uv o = true ->
  c04_judge_mc o s (Some (Ok resp)) = true -> s_cap s = Some (Some true).
Proof. exact judge_mc_required. Qed.

(** *** the client's source: the only options literal of either ceremony is `Options { rk, up: true, uv }`, no PIN
    is sent, and the literal follows the call it is an argument of *)
From PK Require Auth.ClientSource Auth.gen.ClientSkeleton.
Theorem c04_client_always_demands_presence_in_source :
  OrderList.before "MakeCredential" "OptionsUpTrue" ClientSkeleton.SRC_CLIENT_REGISTER = true
  /\ OrderList.first_pos "OptionsOther" ClientSkeleton.SRC_CLIENT_REGISTER = None
  /\ OrderList.before "OptionsUpTrue" "PinAuthNone" ClientSkeleton.SRC_CLIENT_REGISTER = true
  /\ OrderList.before "GetAssertion" "OptionsUpTrue" ClientSkeleton.SRC_CLIENT_AUTHENTICATE = true
  /\ OrderList.first_pos "OptionsOther" ClientSkeleton.SRC_CLIENT_AUTHENTICATE = None
  /\ OrderList.before "OptionsUpTrue" "PinAuthNone" ClientSkeleton.SRC_CLIENT_AUTHENTICATE = true.
Proof. vm_compute. repeat split. Qed.
Theorem c04_client_source_is_the_modelled_one :
  ClientSkeleton.SRC_CLIENT_REGISTER = ClientSource.EXP_CLIENT_REGISTER
  /\ ClientSkeleton.SRC_CLIENT_AUTHENTICATE = ClientSource.EXP_CLIENT_AUTHENTICATE.
Proof. exact (conj ClientSource.src_client_register_order ClientSource.src_client_authenticate_order). Qed.

Print Assumptions c04_make_credential.
Print Assumptions c04_get_assertion.
Print Assumptions c04_violation_bit_meaning.
Print Assumptions c04_source_order_make_credential.
Print Assumptions c04_source_order_get_assertion.
Print Assumptions c04_source_order_check_user.
Print Assumptions c04_source_order_on_runs.
Print Assumptions c04_source_consent_precedes_effects.
Print Assumptions c04_register_client.
Print Assumptions c04_authenticate_client.
Print Assumptions c04_client_uv_mapping.
Print Assumptions c04_required_verification_needs_capability.
Print Assumptions c04_client_always_demands_presence_in_source.
Print Assumptions c04_client_source_is_the_modelled_one.
