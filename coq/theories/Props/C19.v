(** C19 - shared-store concurrency never reuses a counter or loses a credential.
    Statements only; proofs in Auth/Sched.v (and Auth/History.v for serial schedules). *)
From PK Require Import Auth.Sched.
Open Scope N_scope.

(** progress: whatever the shared store holds and whatever the other ceremonies did, an unfinished
    ceremony's next step is defined and consumes its pending call - no step of the ceremony logic ever
    waits for another ceremony (the locks themselves are runtime: exercised by the schedule sweep) *)
Theorem c19_no_step_is_blocked : forall R (t : task R) st d e k,
  t_prog t = Call e k ->
  exists a, t_prog (fst (task_step t st d)) = k a \/ t_prog (fst (task_step t st d)) = Stuck.
Proof. exact @task_step_advances. Qed.

(** no credential is lost: under EVERY schedule of ANY number of ceremonies the set of credential
    ids in the shared store only grows ... *)
Theorem c19_ids_only_grow : forall R sched (ts : list (task R)) st d id,
  In id (ids st) -> In id (ids (snd (run_sched sched ts st d))).
Proof. exact @sched_ids_monotone. Qed.

(** ... and the step at which a registration saves its passkey puts that id there, so it is present
    after any continuation of any schedule *)
Theorem c19_saved_credential_stays : forall R (t : task R) st d p u rp o k rest (ts : list (task R)),
  t_prog t = Call (ESave p u rp o) k ->
  In (pk_cred_id p) (ids (snd (run_sched rest ts (snd (task_step t st d)) d))).
Proof. exact @save_is_never_lost. Qed.

(** counters. Assertions that do not overlap are a history: C08's theorems give strictly increasing,
    pairwise distinct reports whose largest is the stored value ([c08_assertion_step] along
    [run_history]). Two assertions on one credential whose lookup-to-update windows overlap reuse a
    counter: the property's "pairwise distinct" clause is FALSE of the code for that class of
    schedules - a known finding (it needs an atomic read-modify-write in the store API), witnessed
    here on the model and reproduced on the implementation by the schedule sweep. *)
Theorem c19_overlapping_assertions_reuse_a_counter : forall ad_bytes,
  let '(ts, st) := run_sched [0; 1; 0; 1; 0; 1; 0; 1]%nat [assert_task ad_bytes; assert_task ad_bytes] [cred7] Full in
  map reported ts = [Some (Some 8); Some (Some 8)] /\ stored_counter st [9] = Some 8.
Proof. exact overlap_reuses_counter. Qed.

Theorem c19_serial_assertions_are_distinct : forall ad_bytes,
  let '(ts, st) := run_sched [0; 0; 0; 0; 1; 1; 1; 1]%nat [assert_task ad_bytes; assert_task ad_bytes] [cred7] Full in
  map reported ts = [Some (Some 8); Some (Some 9)] /\ stored_counter st [9] = Some 9.
Proof. exact serial_is_distinct. Qed.

Print Assumptions c19_no_step_is_blocked.
Print Assumptions c19_ids_only_grow.
Print Assumptions c19_saved_credential_stays.
Print Assumptions c19_overlapping_assertions_reuse_a_counter.
Print Assumptions c19_serial_assertions_are_distinct.
