(** C09 - PRF results are the specified HMAC, per credential, and gated on verification.
    Statements only; proofs are in Auth/C09Facts.v.

    HMAC-SHA-256 is the effect [EHmac key salt] of the ceremony programs (Auth/Prog.v).  The theorems say,
    for EVERY request, configuration and answer script (every store content, user answer, random
    value, fault, wrong-shaped answer, and every script that ends early = cancellation), which
    (key, salt) pairs are asked for and that the reported results are exactly the answers; the theorems
    of part D then state the property in plain terms for the executions in which those answers are
    HMAC-SHA-256 ([hmac_honest]) - which is what the oracle of the check establishes on every observed
    run by recomputing Lib/Hmac.hmac_sha256 (validated against RFC 4231) on the observed secrets and salts.

    The judgements [j_reg], [j_auth] (Auth/C09Facts.v section 1 and "Assertion") read like regular
    expressions over the interesting events of a trace:
      registration  = user check ; credential id ; secrets (ERand 32, once or twice) ; HMACs ; save
      assertion     = lookup ; user check ; counter update ; HMACs
    with the arguments each event must have and what the result must report. *)
From PK Require Import Lib.Sha256 Lib.Hmac Lib.Base64 Auth.C09Facts.
Open Scope N_scope.

(** * A. Salts *)

(** the salt of an input that is not pre-hashed: SHA-256("WebAuthn PRF" || 0x00 || input) *)
Theorem c09_salt : forall v, make_salt v = sha256 (bytes_of_string PrfLabel.label ++ [0] ++ v).
Proof. exact make_salt_spec. Qed.

Theorem c09_hashed_inputs : forall e,
  convert_eval e true = Ok {| pv_first := make_salt (wv_first e); pv_second := option_map make_salt (wv_second e) |}.
Proof. exact convert_eval_hashed. Qed.

(** pre-hashed inputs are used as they are, and only if each is 32 bytes long; else ValidationError *)
Theorem c09_prehashed_inputs : forall e,
  convert_eval e false = if values_len32 e then Ok (unvalues e) else Err WValidationError.
Proof. exact convert_eval_prehashed. Qed.

(** * B. Which secrets, keys and salts: every execution of the four ceremonies *)

(** Registration, CTAP2 level.  After a sufficient user check and the credential id: secrets are
    generated (32 random bytes; the second one iff the configuration has the non-gated secret) exactly
    when the capability is present and they are wanted; an evaluation happens only with capability,
    default inputs, evaluation-at-creation on, and secrets; its key is [select_key secrets uv] with uv
    the REQUESTED option - without a usable secret there is no EHmac event and the ceremony ends with
    UserVerificationBlocked; the salts are the request's; the saved passkey carries exactly the
    generated secrets; a successful result reports a PRF output exactly when capability and request
    are present, with enabled = (secrets were generated) and results = the HMAC answers. *)
Theorem c09_make_credential : forall c q script,
  j_reg view_mc N.eqb c (o_up (mc_opts q)) (o_uv (mc_opts q)) (mc_ext q)
        (filter (fun ea => mcI (fst ea)) (fst (interp (make_credential c q) script)))
        (snd (interp (make_credential c q) script)) = true.
Proof. exact make_credential_c09. Qed.

(** Assertion, CTAP2 level.  The credential used is the first one the lookup returned; after a
    sufficient user check (and the counter update): an evaluation happens only with capability and a
    prf request; a credential without secrets is an error (InvalidParameter); the salts are
    [select_salts] for THIS credential's id; the key is [select_key (pk_hmac cred) v] with v the
    verification the user check REPORTED - without a usable secret no EHmac event and
    UserVerificationBlocked; a successful result names that credential and reports exactly the answers. *)
Theorem c09_get_assertion : forall adb c q script,
  j_auth view_ga gr_cred_id N.eqb c (o_up (ga_opts q)) (o_uv (ga_opts q)) (ga_ext q)
         (filter (fun ea => gaI (fst ea)) (fst (interp (get_assertion adb c q) script)))
         (snd (interp (get_assertion adb c q) script)) = true.
Proof. exact get_assertion_c09. Qed.

(** The WebAuthn client: a request the client refuses ([registration_ext] / [authentication_ext] = Err,
    or the RP ID check failed) produces none of the interesting events and that error; otherwise the
    same judgements hold with the extension inputs and options the client derives
    (up = true, uv = (userVerification <> discouraged)). *)
Theorem c09_register : forall c domain origin q cd script,
  j_register c domain q
     (filter (fun ea => mcI (fst ea)) (fst (interp (register c domain origin q cd) script)))
     (snd (interp (register c domain origin q cd) script)) = true.
Proof. exact register_c09. Qed.

Theorem c09_authenticate : forall c domain origin q cd script,
  j_authenticate c domain q
     (filter (fun ea => gaI (fst ea)) (fst (interp (authenticate c domain origin q cd) script)))
     (snd (interp (authenticate c domain origin q cd) script)) = true.
Proof. exact authenticate_c09. Qed.

(** what the judgements mean for a successful result: the exact list of interesting events *)
Theorem c09_registration_reading : forall (R E : Type) (view : R -> report) (is_status : E -> N -> bool)
    c up uv ext evs (r : R),
  j_reg view is_status c up uv ext evs (Some (Ok r)) = true ->
  exists cred up' uv' p v id secrets results hm psave u rp o,
    evs = (ECheckUser cred up' uv', ACheck (Ok (p, v))) :: (ERand (c_id_len c), ABytes id)
          :: secret_events secrets ++ hm ++ [(ESave psave u rp o, AUnit (Ok tt))]
    /\ up = true /\ enough up uv p v = true
    /\ pk_hmac psave = secrets /\ (c_hmac c = None -> secrets = None)
    /\ reg_report_ok c ext secrets results (view r) = true
    /\ reg_evaluation c uv ext secrets results hm.
Proof. exact @j_reg_ok_inv. Qed.

Theorem c09_assertion_reading : forall (R E : Type) (view : R -> report) (is_status : E -> N -> bool)
    (used : R -> bytes) c up uv ext evs (r : R),
  j_auth view used is_status c up uv ext evs (Some (Ok r)) = true ->
  exists ids rp fr cred shown up' uv' p v upd results hm,
    evs = (EFind ids rp, AFind fr) :: (ECheckUser shown up' uv', ACheck (Ok (p, v))) :: upd ++ hm
    /\ first_credential fr = Ok cred /\ enough up uv p v = true
    /\ (upd = [] \/ exists p', upd = [(EUpdate p', AUnit (Ok tt))])
    /\ used r = pk_cred_id cred
    /\ report_eqb (view r) (option_map (fun v => (None, Some v)) results) = true
    /\ auth_evaluation c ext cred v results hm.
Proof. exact @j_auth_ok_inv. Qed.

(** * C. Precedence of per-credential inputs *)

(** the entry listed under the credential's id wins over the default inputs ... *)
Theorem c09_select_salts_listed : forall id rq l v,
  pi_by_cred rq = Some l -> In (id, v) l -> (forall v', In (id, v') l -> v' = v) ->
  select_salts id rq = Some v.
Proof. exact select_salts_listed. Qed.

(** ... which are used when the id is not listed *)
Theorem c09_select_salts_unlisted : forall id rq,
  (forall l v, pi_by_cred rq = Some l -> ~ In (id, v) l) -> select_salts id rq = pi_eval rq.
Proof. exact select_salts_unlisted. Qed.

(** the same from the WebAuthn request down to the salts handed to the authenticator: the entry whose
    key decodes to the credential's id (the only such entry: per-credential maps have distinct
    decoded keys) supplies the salts *)
Theorem c09_client_precedence : forall allow p sh x l k wv id,
  get_ctap_extension allow (Some p) true sh = Ok x ->
  wp_by_cred p = Some l -> In (k, wv) l -> bytes_try_from_str k = Some id ->
  (forall k' wv', In (k', wv') l -> bytes_try_from_str k' = Some id -> wv' = wv) ->
  exists e rq cv, x = Some e /\ ge_prf e = Some rq /\ convert_eval wv sh = Ok cv /\ select_salts id rq = Some cv.
Proof. exact auth_precedence_listed. Qed.

Theorem c09_client_default : forall allow p sh x id,
  get_ctap_extension allow (Some p) true sh = Ok x ->
  (forall l k wv, wp_by_cred p = Some l -> In (k, wv) l -> bytes_try_from_str k <> Some id) ->
  exists e rq, x = Some e /\ ge_prf e = Some rq /\ select_salts id rq = pi_eval rq
    /\ match wp_eval p with
       | Some v => exists cv, convert_eval v sh = Ok cv /\ pi_eval rq = Some cv
       | None => pi_eval rq = None
       end.
Proof. exact auth_precedence_default. Qed.

(** * D. The property in plain terms, when every HMAC event is answered by HMAC-SHA-256 *)

(** Registration: a reported PRF output implies the capability; "enabled" = the saved passkey carries
    secrets; the secrets are fresh 32-byte random strings; every result is HMAC-SHA-256 of a salt of
    the request under the secret selected by the requested uv option, and the gated secret is
    selected only when the user check reported verification ([registration_facts]). *)
Theorem c09_make_credential_plain : forall c q script r out,
  hmac_honest (fst (interp (make_credential c q) script)) ->
  snd (interp (make_credential c q) script) = Some (Ok r) -> mr_prf r = Some out ->
  registration_facts c (o_uv (mc_opts q)) (mc_ext q) (fst (interp (make_credential c q) script))
                     (Some (pm_enabled out)) (pm_results out).
Proof. exact make_credential_plain. Qed.

(** Assertion: the results are HMAC-SHA-256, under the secret of the credential the lookup returned
    first and the result names, selected by the verification the user check REPORTED (gated iff
    verified), over the salts selected for that credential's id ([assertion_facts]). *)
Theorem c09_get_assertion_plain : forall adb c q script r rs,
  hmac_honest (fst (interp (get_assertion adb c q) script)) ->
  snd (interp (get_assertion adb c q) script) = Some (Ok r) -> gr_prf r = Some rs ->
  assertion_facts c (ga_ext q) (fst (interp (get_assertion adb c q) script)) (gr_cred_id r) rs.
Proof. exact get_assertion_plain. Qed.

Theorem c09_register_plain : forall c domain origin q cd script cr out,
  hmac_honest (fst (interp (register c domain origin q cd) script)) ->
  snd (interp (register c domain origin q cd) script) = Some (Ok cr) -> cr_prf cr = Some out ->
  exists ext, registration_ext (opt_bind (rq_ext q) wext_zip) (capable c) = Ok ext
    /\ registration_facts c (reg_uv q) ext (fst (interp (register c domain origin q cd) script))
                          (po_enabled out) (option_map unvalues (po_results out)).
Proof. exact register_plain. Qed.

Theorem c09_authenticate_plain : forall c domain origin q cd script au out ws,
  hmac_honest (fst (interp (authenticate c domain origin q cd) script)) ->
  snd (interp (authenticate c domain origin q cd) script) = Some (Ok au) ->
  au_prf au = Some out -> po_results out = Some ws ->
  exists ext, authentication_ext (aq_allow q) (aq_ext q) (capable c) = Ok ext
    /\ assertion_facts c ext (fst (interp (authenticate c domain origin q cd) script)) (au_raw_id au) (unvalues ws).
Proof. exact authenticate_plain. Qed.

(** at the WebAuthn level a PRF request ([prf] or [prfAlreadyHashed] present) to a capable authenticator
    is always answered: a successful registration reports a PRF output with "enabled" set *)
Theorem c09_register_always_reports : forall c domain origin q cd script cr p sh,
  c_hmac c <> None -> client_inputs (opt_bind (rq_ext q) wext_zip) = Some (p, sh) ->
  snd (interp (register c domain origin q cd) script) = Some (Ok cr) ->
  exists out en, cr_prf cr = Some out /\ po_enabled out = Some en.
Proof. exact register_always_reports. Qed.

(** the salts of those facts in terms of the WebAuthn inputs: [prf] when present (hashed with the
    "WebAuthn PRF" prefix), else [prfAlreadyHashed] (as is, each 32 bytes) *)
Theorem c09_registration_salts : forall ext x rq ev,
  registration_ext ext true = Ok x -> prf_request x = Some rq -> pi_eval rq = Some ev ->
  exists p sh v, client_inputs ext = Some (p, sh) /\ wp_eval p = Some v
    /\ pv_first ev = salt_of sh (wv_first v) /\ pv_second ev = option_map (salt_of sh) (wv_second v)
    /\ (sh = false -> values_len32 v = true).
Proof. exact registration_ext_salts. Qed.

(** ... and for an assertion: an evalByCredential entry whose key decodes to the credential's id when
    there is one, else the default inputs *)
Theorem c09_assertion_salts : forall allow ext x rq id salts,
  authentication_ext allow ext true = Ok x -> ga_prf_request x = Some rq -> select_salts id rq = Some salts ->
  exists p sh wv, client_inputs ext = Some (p, sh)
    /\ pv_first salts = salt_of sh (wv_first wv) /\ pv_second salts = option_map (salt_of sh) (wv_second wv)
    /\ (sh = false -> values_len32 wv = true)
    /\ ((exists l k, wp_by_cred p = Some l /\ In (k, wv) l /\ bytes_try_from_str k = Some id)
        \/ ((forall l k wv', wp_by_cred p = Some l -> In (k, wv') l -> bytes_try_from_str k <> Some id)
            /\ wp_eval p = Some wv)).
Proof. exact authentication_ext_salts. Qed.

(** * E. No capability: no PRF output, no HMAC, no secret stored (any level: any view of the result) *)
Theorem c09_incapable_registration : forall (R E : Type) (view : R -> report) (is_status : E -> N -> bool)
    c up uv ext evs (r : R),
  c_hmac c = None ->
  j_reg view is_status c up uv ext evs (Some (Ok r)) = true ->
  view r = None
  /\ (forall k s a, ~ In (EHmac k s, a) evs)
  /\ (forall p u rp o a, In (ESave p u rp o, a) evs -> pk_hmac p = None).
Proof. exact @incapable_registration. Qed.

Theorem c09_incapable_assertion : forall (R E : Type) (view : R -> report) (used : R -> bytes)
    (is_status : E -> N -> bool) c up uv ext evs (r : R),
  c_hmac c = None ->
  j_auth view used is_status c up uv ext evs (Some (Ok r)) = true ->
  view r = None /\ (forall k s a, ~ In (EHmac k s, a) evs).
Proof. exact @incapable_assertion. Qed.

(** * F. Malformed requests are rejected before the authenticator is invoked *)

(** a refused request: every effect of the whole client ceremony is one of the three capability
    queries of get_info, and the result is that error (or the ceremony was cut) *)
Theorem c09_register_rejected : forall c domain origin q cd e script,
  reg_rejection c domain q = Some e ->
  Forall (fun ea => is_info (fst ea) = true) (fst (interp (register c domain origin q cd) script))
  /\ (snd (interp (register c domain origin q cd) script) = None
      \/ snd (interp (register c domain origin q cd) script) = Some (Err e)).
Proof. exact register_rejected. Qed.

Theorem c09_authenticate_rejected : forall c domain origin q cd e script,
  auth_rejection c domain q = Some e ->
  Forall (fun ea => is_info (fst ea) = true) (fst (interp (authenticate c domain origin q cd) script))
  /\ (snd (interp (authenticate c domain origin q cd) script) = None
      \/ snd (interp (authenticate c domain origin q cd) script) = Some (Err e)).
Proof. exact authenticate_rejected. Qed.

Theorem c09_register_rejected_only : forall c domain origin q cd e,
  reg_rejection c domain q = Some e -> only is_info (register c domain origin q cd).
Proof. exact register_rejected_only. Qed.

Theorem c09_authenticate_rejected_only : forall c domain origin q cd e,
  auth_rejection c domain q = Some e -> only is_info (authenticate c domain origin q cd).
Proof. exact authenticate_rejected_only. Qed.

(** the shapes.  Registration: per-credential inputs (in [prf], or in [prfAlreadyHashed] when [prf] is
    absent) - whatever the authenticator supports *)
Theorem c09_reg_by_credential_prf : forall ext sup p,
  opt_bind ext we_prf = Some p -> wp_by_cred p <> None -> registration_ext ext sup = Err WNotSupportedError.
Proof. exact registration_by_cred_prf. Qed.

Theorem c09_reg_by_credential_hashed : forall ext sup p,
  opt_bind ext we_prf = None -> opt_bind ext we_prf_hashed = Some p -> wp_by_cred p <> None ->
  registration_ext ext sup = Err WNotSupportedError.
Proof. exact registration_by_cred_hashed. Qed.

(** registration: pre-hashed inputs that are not 32 bytes *)
Theorem c09_reg_bad_length : forall ext p v,
  opt_bind ext we_prf = None -> opt_bind ext we_prf_hashed = Some p -> wp_by_cred p = None ->
  wp_eval p = Some v -> values_len32 v = false ->
  registration_ext ext true = Err WValidationError.
Proof. exact registration_bad_length. Qed.

(** authentication, capable authenticator: which input is validated ... *)
Theorem c09_auth_uses_prf : forall allow ext p,
  opt_bind ext we_prf = Some p -> authentication_ext allow ext true = get_ctap_extension allow (Some p) true true.
Proof. exact authentication_ext_uses_prf. Qed.

Theorem c09_auth_uses_hashed : forall allow ext,
  opt_bind ext we_prf = None ->
  authentication_ext allow ext true = get_ctap_extension allow (opt_bind ext we_prf_hashed) true false.
Proof. exact authentication_ext_uses_hashed. Qed.

(** ... per-credential inputs without an allow list *)
Theorem c09_auth_no_allow_list : forall allow p sh l,
  wp_by_cred p = Some l -> l <> [] -> allow_empty allow = true ->
  get_ctap_extension allow (Some p) true sh = Err WNotSupportedError.
Proof. exact get_ctap_no_allow_list. Qed.

(** ... a key that is empty, not decodable, or not the id of an allowed credential *)
Theorem c09_auth_bad_key : forall allow p sh l k v,
  wp_by_cred p = Some l -> allow_empty allow = false -> In (k, v) l -> bad_key allow k = true ->
  get_ctap_extension allow (Some p) true sh = Err WSyntaxError.
Proof. exact get_ctap_bad_key. Qed.

(** ... keys all good, some pre-hashed input (per credential or default) not 32 bytes *)
Theorem c09_auth_bad_length : forall allow p sh l,
  wp_by_cred p = Some l -> allow_empty allow = false ->
  (forall k v, In (k, v) l -> bad_key allow k = false) ->
  sh = false ->
  ((exists k v, In (k, v) l /\ values_len32 v = false) \/ (exists v, wp_eval p = Some v /\ values_len32 v = false)) ->
  get_ctap_extension allow (Some p) true sh = Err WValidationError.
Proof. exact get_ctap_bad_length. Qed.

(** * Non-vacuity *)
Definition ex_cfg (without_uv on_mc : bool) : config :=
  {| c_aaguid := []; c_algs := [ES256]; c_counter := false; c_id_len := 16;
     c_hmac := Some {| h_without_uv := without_uv; h_on_mc := on_mc |} |}.
Definition ex_mc (uv : bool) : mc_request :=
  {| mc_cdh := []; mc_rp := {| rp_id := [97]; rp_name := None |};
     mc_user := {| u_id := [1]; u_name := None; u_display := None |}; mc_params := [ES256];
     mc_exclude := None;
     mc_ext := Some {| me_hmac_secret := None; me_hmac_secret_mc := false;
                       me_prf := Some {| pi_eval := Some {| pv_first := [7]; pv_second := Some [8] |}; pi_by_cred := None |} |};
     mc_opts := {| o_rk := false; o_up := true; o_uv := uv |}; mc_pin_auth := false |}.

(** a registration with evaluation at creation: two secrets, two HMACs under the gated secret [5],
    results = the answers, enabled *)
Example c09_example_registration :
  exists r, interp (make_credential (ex_cfg true true) (ex_mc true))
       [AOptBool (Some true); ACheck (Ok (true, true)); ABytes [9]; AKey [1] [2] [3]; ABytes [5]; ABytes [6];
        ABytes [50]; ABytes [60]; AInfo Full; AUnit (Ok tt)]
     = ([(EVerifEnabled, AOptBool (Some true)); (ECheckUser None true true, ACheck (Ok (true, true)));
         (ERand 16, ABytes [9]); (EKeyGen, AKey [1] [2] [3]); (ERand 32, ABytes [5]); (ERand 32, ABytes [6]);
         (EHmac [5] [7], ABytes [50]); (EHmac [5] [8], ABytes [60]); (EStoreInfo, AInfo Full);
         (ESave {| pk_key := {| k_es256 := true; k_ec2 := true; k_d := Some [1]; k_x := [2]; k_y := [3] |};
                   pk_cred_id := [9]; pk_rp_id := [97]; pk_user_handle := None; pk_counter := None;
                   pk_hmac := Some ([5], Some [6]) |}
                (mc_user (ex_mc true)) (mc_rp (ex_mc true)) (mc_opts (ex_mc true)), AUnit (Ok tt))],
        Some (Ok r))
     /\ mr_prf r = Some {| pm_enabled := true; pm_results := Some {| pv_first := [50]; pv_second := Some [60] |} |}.
Proof. eexists. split; reflexivity. Qed.

(** unverified (uv not requested) with the non-gated secret: the key is the second secret [6] *)
Example c09_example_unverified :
  exists tr r, interp (make_credential (ex_cfg true true) (ex_mc false))
       [ACheck (Ok (true, true)); ABytes [9]; AKey [1] [2] [3]; ABytes [5]; ABytes [6];
        ABytes [50]; ABytes [60]; AInfo Full; AUnit (Ok tt)] = (tr, Some (Ok r))
     /\ filter (fun ea => is_hmac (fst ea)) tr = [(EHmac [6] [7], ABytes [50]); (EHmac [6] [8], ABytes [60])].
Proof. eexists. eexists. split; reflexivity. Qed.

(** unverified without a non-gated secret: no HMAC event at all, UserVerificationBlocked, nothing saved *)
Example c09_example_blocked :
  exists tr, interp (make_credential (ex_cfg false true) (ex_mc false))
       [ACheck (Ok (true, true)); ABytes [9]; AKey [1] [2] [3]; ABytes [5]; ABytes [50]; AInfo Full; AUnit (Ok tt)]
     = (tr, Some (Err CTAP2_UserVerificationBlocked))
     /\ filter (fun ea => is_hmac (fst ea) || is_save (fst ea)) tr = [].
Proof. eexists. split; reflexivity. Qed.

(** [hmac_honest] is satisfiable with real values (RFC 4231 test case 2: key "Jefe") *)
Example c09_example_honest :
  hmac_honest [(EHmac [74; 101; 102; 101] [119; 104; 97; 116; 32; 100; 111; 32; 121; 97; 32; 119; 97; 110; 116; 32; 102; 111; 114; 32; 110; 111; 116; 104; 105; 110; 103; 63],
                ABytes [91; 220; 193; 70; 191; 96; 117; 78; 106; 4; 36; 38; 8; 149; 117; 199; 90; 0; 63; 8; 157; 39; 57; 131; 157; 236; 88; 185; 100; 236; 56; 67])].
Proof.
  intros k s a [H|[]]. injection H as <- <- <-. rewrite hmac_rfc4231_2. reflexivity.
Qed.

(** a refused request: per-credential inputs at registration, and an unlisted key at authentication *)
Definition ex_vals : wprf_values := {| wv_first := [1]; wv_second := None |}.
Example c09_example_rejected_registration :
  reg_rejection (ex_cfg false false) (Ok [97])
    {| rq_rp_id := None; rq_rp_name := []; rq_user := {| u_id := [1]; u_name := None; u_display := None |};
       rq_challenge := []; rq_params := []; rq_exclude := None; rq_selection := None;
       rq_ext := Some {| we_cred_props := None;
                         we_prf := Some {| wp_eval := None; wp_by_cred := Some [([65;81], ex_vals)] |};
                         we_prf_hashed := None |} |} = Some WNotSupportedError.
Proof. reflexivity. Qed.

Example c09_example_rejected_authentication :
  auth_rejection (ex_cfg false false) (Ok [97])
    {| aq_rp_id := None; aq_challenge := []; aq_allow := Some [[2]]; aq_uv := UvPreferred;
       aq_ext := Some {| we_cred_props := None;
                         we_prf := Some {| wp_eval := None; wp_by_cred := Some [([65;81], ex_vals)] |};  (* "AQ" = id [1] *)
                         we_prf_hashed := None |} |} = Some WSyntaxError.
Proof. reflexivity. Qed.

(** *** the source of extension processing as it is now (extensions/hmac_secret.rs, lists regenerated on every run): the
    secrets are two independent random draws, a PRF evaluation is an HMAC with one of them (the gated one when verified,
    otherwise the non-gated one or the error), and the lists equal the order the model was written from *)
From Coq Require Import String.
From PK Require Auth.SkeletonFacts Auth.gen.Skeleton Auth.OrderList.
Theorem c09_secret_provenance_in_source :
(  filter SkeletonFacts.is_effect_mark (Skeleton.SRC_MAKE_HMAC_SECRET ++ Skeleton.SRC_CALCULATE_HMAC_SECRET) = SkeletonFacts.expand "MakeExt"
  /\ filter SkeletonFacts.is_effect_mark Skeleton.SRC_CALCULATE_HMAC_SECRET = SkeletonFacts.expand "GetExt"
  /\ OrderList.before "CredWithUv" "Rand" Skeleton.SRC_MAKE_HMAC_SECRET = true
  /\ OrderList.before "CredWithoutUv" "WithoutUvCfg" Skeleton.SRC_MAKE_HMAC_SECRET = true
  /\ OrderList.first_pos "Hmac" Skeleton.SRC_MAKE_HMAC_SECRET = None /\ OrderList.first_pos "Sha256" Skeleton.SRC_MAKE_HMAC_SECRET = None
  /\ OrderList.first_pos "CalcHmac" Skeleton.SRC_MAKE_HMAC_SECRET = None
  /\ OrderList.first_pos "Rand" Skeleton.SRC_CALCULATE_HMAC_SECRET = None /\ OrderList.first_pos "Rand" Skeleton.SRC_GET_PRF = None
  /\ OrderList.first_pos "Rand" Skeleton.SRC_MAKE_PRF = None
  /\ OrderList.first_pos "Update" Skeleton.SRC_GET_PRF = None /\ OrderList.first_pos "Save" Skeleton.SRC_GET_PRF = None
  /\ OrderList.first_pos "Update" Skeleton.SRC_CALCULATE_HMAC_SECRET = None
  /\ OrderList.before "Err UserVerificationBlocked" "Hmac" Skeleton.SRC_CALCULATE_HMAC_SECRET = true)%string.
Proof. exact SkeletonFacts.source_secret_provenance. Qed.
Theorem c09_extension_source_is_the_modelled_one :
  Skeleton.SRC_MAKE_HMAC_SECRET = SkeletonFacts.EXP_MAKE_HMAC_SECRET /\ Skeleton.SRC_MAKE_PRF = SkeletonFacts.EXP_MAKE_PRF
  /\ Skeleton.SRC_GET_PRF = SkeletonFacts.EXP_GET_PRF /\ Skeleton.SRC_CALCULATE_HMAC_SECRET = SkeletonFacts.EXP_CALCULATE_HMAC_SECRET
  /\ Skeleton.SRC_SELECT_SALTS = SkeletonFacts.EXP_SELECT_SALTS.
Proof.
  exact (conj SkeletonFacts.src_make_hmac_secret_order (conj SkeletonFacts.src_make_prf_order (conj SkeletonFacts.src_get_prf_order
        (conj SkeletonFacts.src_calculate_hmac_secret_order SkeletonFacts.src_select_salts_order)))).
Qed.

Print Assumptions c09_salt.
Print Assumptions c09_hashed_inputs.
Print Assumptions c09_prehashed_inputs.
Print Assumptions c09_make_credential.
Print Assumptions c09_get_assertion.
Print Assumptions c09_register.
Print Assumptions c09_authenticate.
Print Assumptions c09_registration_reading.
Print Assumptions c09_assertion_reading.
Print Assumptions c09_select_salts_listed.
Print Assumptions c09_select_salts_unlisted.
Print Assumptions c09_client_precedence.
Print Assumptions c09_client_default.
Print Assumptions c09_make_credential_plain.
Print Assumptions c09_get_assertion_plain.
Print Assumptions c09_register_plain.
Print Assumptions c09_authenticate_plain.
Print Assumptions c09_register_always_reports.
Print Assumptions c09_registration_salts.
Print Assumptions c09_assertion_salts.
Print Assumptions c09_incapable_registration.
Print Assumptions c09_incapable_assertion.
Print Assumptions c09_register_rejected.
Print Assumptions c09_authenticate_rejected.
Print Assumptions c09_register_rejected_only.
Print Assumptions c09_authenticate_rejected_only.
Print Assumptions c09_reg_by_credential_prf.
Print Assumptions c09_reg_by_credential_hashed.
Print Assumptions c09_reg_bad_length.
Print Assumptions c09_auth_uses_prf.
Print Assumptions c09_auth_uses_hashed.
Print Assumptions c09_auth_no_allow_list.
Print Assumptions c09_auth_bad_key.
Print Assumptions c09_auth_bad_length.
Print Assumptions c09_secret_provenance_in_source.
Print Assumptions c09_extension_source_is_the_modelled_one.
