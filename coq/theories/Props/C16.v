(** C16 - CTAPHID fragmentation and reassembly preserve every message, per channel.
    Statements only: each is closed by [exact] of a lemma proved in Hid/HidFacts.v. *)
From PK Require Import Lib.Bytes Hid.HidModel Hid.HidFacts.
Open Scope N_scope.

(** (1) what the sender accepts: exactly the payloads of at most 7608 bytes; nothing above the
    protocol maximum of 7609 is ever accepted (so nothing is truncated). *)
Theorem c16_accepts : forall ch cmd p, N.of_nat (length p) <= 7608 ->
  message_new ch cmd p = Some (Msg ch cmd 0 (length p) p).
Proof. exact message_new_accepts. Qed.

Theorem c16_refuses : forall ch cmd p, 7608 < N.of_nat (length p) -> message_new ch cmd p = None.
Proof. exact message_new_refuses. Qed.

(** (2) what an accepted message puts on the wire: one initialisation packet
    CID(4) | CMD+0x80 | BCNT_hi | BCNT_lo | first 57 bytes, then continuation packets
    CID(4) | SEQ | next 59 bytes with SEQ = 0,1,2,..., every packet zero padded. *)
Theorem c16_wire : forall ch cmd p,
  send (Msg ch cmd 0 (length p) p) = Some (spec_packets ch cmd p).
Proof. exact send_spec. Qed.

Theorem c16_packets_are_64_bytes : forall ch cmd p,
  Forall (fun pk => length pk = 64%nat) (spec_packets ch cmd p).
Proof. exact spec_packets_len. Qed.

Theorem c16_payload_carried : forall p, firstn 57 p ++ concat (chunks 59 (skipn 57 p)) = p.
Proof. exact spec_packets_payload. Qed.

Theorem c16_at_most_128_continuations : forall p, N.of_nat (length p) <= 7608 ->
  (length (chunks 59 (skipn 57 p)) <= 128)%nat.
Proof. exact accepted_conts. Qed.

(** (3) any number of channels, any interleaving that keeps each channel's own order: the receiver
    answers nothing until the last packet of a message and that whole message on its last packet,
    and ends with the table it started from. [labelled] pairs each packet with the expected answer. *)
Theorem c16_interleaving : forall (streams : list stream) r t,
  NoDup (map s_ch streams) ->
  Forall s_sendable streams ->
  (forall s, In s streams -> t_get t (s_ch s) = None) ->
  Merge (map s_labelled streams) r ->
  exists t', run t (map fst r) = Some (t', map snd r) /\ (forall c, t_get t' c = t_get t c).
Proof. exact interleaving. Qed.

(** (4) a continuation packet for a channel with no message in progress yields nothing *)
Theorem c16_orphan_continuation : forall t p ch seq payload,
  parse_packet p = Some (HCont ch seq, payload) -> t_get t ch = None ->
  handle_packet t p = HP t None.
Proof. exact orphan_continuation. Qed.

(** (4b) a channel re-used while a message is in progress (for every unfinished state [s]): a new multi-packet
    message replaces the unfinished one and is delivered once, on its last packet; a new single-packet message is
    delivered at once and the unfinished one stays *)
Theorem c16_new_message_replaces_unfinished : forall ch cmd p s, sendable ch cmd p -> (57 < length p)%nat ->
  run1 s (map fst (labelled ch cmd p)) = Some (None, map snd (labelled ch cmd p)).
Proof. exact restart_stream. Qed.

Theorem c16_single_packet_message_on_busy_channel : forall ch cmd p s, sendable ch cmd p -> (length p <= 57)%nat ->
  run1 s (map fst (labelled ch cmd p)) = Some (s, [Some (Msg ch cmd 0 (length p) p)]).
Proof. exact single_packet_keeps_state. Qed.

(** (5) the receiver never panics on byte strings of any length in any order (shared with C15) *)
Theorem c16_receiver_total : forall ps t, table_inv t -> Forall bytes_ok ps ->
  exists t' outs, run t ps = Some (t', outs) /\ table_inv t' /\ length outs = length ps.
Proof. exact run_no_panic. Qed.

(** non-vacuity: a concrete two-channel interleaving meets the hypotheses of (3) *)
Example c16_example :
  let a : stream := (1, 16, repeat 7 60%nat) in
  let b : stream := (2, 3, [1; 2; 3]) in
  exists t', run [] (map fst (nth 0 (s_labelled a) ([], None) :: s_labelled b ++ tl (s_labelled a)))
             = Some (t', [None; Some (Msg 2 3 0 3 [1; 2; 3]); Some (Msg 1 16 1 60 (repeat 7 60%nat))]).
Proof. eexists. vm_compute. reflexivity. Qed.

Print Assumptions c16_accepts.
Print Assumptions c16_refuses.
Print Assumptions c16_wire.
Print Assumptions c16_packets_are_64_bytes.
Print Assumptions c16_payload_carried.
Print Assumptions c16_at_most_128_continuations.
Print Assumptions c16_interleaving.
Print Assumptions c16_orphan_continuation.
Print Assumptions c16_receiver_total.
Print Assumptions c16_new_message_replaces_unfinished.
Print Assumptions c16_single_packet_message_on_busy_channel.
