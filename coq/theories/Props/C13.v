From PK Require Import Lib.Cbor Wire.Serde Wire.SerdeFacts.
Theorem c13_stub : forall v, untag (untag v) = untag v.
Proof. exact untag_idem. Qed.
Print Assumptions c13_stub.
