(** C13 - CTAP2 messages use the specified integer keys and round-trip through CBOR; status bytes.
    Statements only: each is closed by [exact] of a lemma proved in Wire/SerdeFacts.v.

    Vocabulary (Wire/Serde.v): a schema [fs : list (fattr * kind)] is generated from each
    [serde_workaround!] struct (gen/CtapSchema.v, [ALL_MESSAGES]); a message value is a list
    [vals : list (option cbor)], one canonical CBOR value per member, [None] = the member is
    [None]; [ser_msg fs vals] are the bytes ciborium writes, [de_msg fs b] reads bytes with
    ciborium and returns the message read, in the form of the CBOR it serialises to. *)
From Coq Require Import String Sorted.
From PK Require Import Lib.Cbor Wire.Serde Wire.SerdeFacts Wire.CtapSpec Wire.gen.CtapSchema Wire.gen.Status Wire.CtapCheck.
Open Scope N_scope.

(** (1) Every member of the six integer-keyed messages carries the number the CTAP specification
    assigns to it, and is required exactly when the specification says so (a missing required
    member is an error by (7), a missing optional one is not). *)
Theorem c13_member_numbers : forall msg fs f k,
  In (msg, fs) ALL_MESSAGES -> In (f, k) fs ->
  spec_of_field msg (f_rust f) = Some (f_key f, is_required (f_dflt f)).
Proof. exact schema_field_spec. Qed.

(** (2) On the wire the keys are those of the members that are present, in declaration order ... *)
Theorem c13_wire_keys : forall m fs vals,
  map fst (ser_entries m fs vals) = map (fun fv => key_of m (fst fv)) (filter written (combine fs vals)).
Proof. exact ser_keys. Qed.

(** ... which for every message of the crate is strictly ascending order of unsigned integers; *)
Theorem c13_wire_keys_ascending : forall msg fs vals,
  In (msg, fs) ALL_MESSAGES ->
  exists keys, map fst (ser_entries IntKeys (map fst fs) vals) = map (fun n => CInt (Z.of_N n)) keys
               /\ StronglySorted N.lt keys.
Proof. exact wire_keys_ascending. Qed.

(** ... and an absent optional member is left out (every entry is a present member with its
    value: nothing is invented, in particular no null). *)
Theorem c13_absent_members_omitted : forall m fs vals k v,
  Forall2 absent_allowed fs vals ->
  In (k, v) (ser_entries m fs vals) -> exists f, In (f, Some v) (combine fs vals) /\ k = key_of m f.
Proof. exact ser_entries_present. Qed.

(** (3) Round trip.  For every schema with pairwise distinct keys of at most 255 (checked
    recursively by [kind_ok]), every message whose members are canonical values of their types
    ([wt_fields]) and that CBOR can carry ([cbor_wf]: bytes below 256, valid UTF-8, lengths and
    integers in range; nesting below ciborium's limit): reading the written bytes yields an equal
    message. *)
Theorem c13_round_trip : forall fs vals,
  kind_ok (KIStruct fs) = true -> wt_fields fs vals = true ->
  cbor_wf (ser_struct IntKeys (map fst fs) vals) = true ->
  (depth (ser_struct IntKeys (map fst fs) vals) < cbor_fuel)%nat ->
  de_msg fs (ser_msg fs vals) = Some (ser_struct IntKeys (map fst fs) vals).
Proof. exact de_msg_ser_msg. Qed.

(** the same for the six messages as generated from the sources (their schemas satisfy [kind_ok]) *)
Theorem c13_message_round_trip : forall msg fs vals,
  In (msg, fs) ALL_MESSAGES -> wt_fields fs vals = true ->
  cbor_wf (ser_struct IntKeys (map fst fs) vals) = true ->
  (depth (ser_struct IntKeys (map fst fs) vals) < cbor_fuel)%nat ->
  de_msg fs (ser_msg fs vals) = Some (ser_struct IntKeys (map fst fs) vals).
Proof. exact message_round_trip. Qed.

(** the struct visitor alone, for any schema and either key mode (raw member values) *)
Theorem c13_visitor_round_trip : forall m fs vals,
  key_distinct m fs -> Forall2 absent_allowed fs vals ->
  de_struct m fs (ser_entries m fs vals) = Some vals.
Proof. exact de_ser_struct. Qed.

(** every canonical value of every field type is read back unchanged *)
Theorem c13_typed_round_trip : forall k, kind_ok k = true -> forall v, wt k v = true -> de_kind k v = Some v.
Proof. exact de_kind_wt. Qed.

(** canonical values exist where [wt] is stated as a fixed point of the normalisation: every
    non-zero [u128] (maxMsgSize) as ciborium writes it, every 37-byte authenticator data with
    valid flags *)
Theorem c13_u128_canonical : forall z, (0 < z < TWO128)%Z -> wt KNzU128 (ser_u128 z) = true.
Proof. exact u128_wt. Qed.

Theorem c13_authdata_canonical : forall b,
  length b = 37%nat -> N.land (nth 32 b 0) (255 - FLAG_BITS) = 0 -> N.land (nth 32 b 0) (64 + 128) = 0 ->
  wt KAuthData (CBytes b) = true.
Proof. exact authdata_canonical. Qed.

(** (4) Unknown keys are ignored: an unsigned integer up to 255 that is no member's number, or a
    text (or byte) string that is no member's name, is an unknown key; an entry with an unknown key,
    whatever its value and wherever it stands, does not change the result. *)
Theorem c13_unknown_int_key : forall fs z,
  (0 <= z <= 255)%Z -> (forall f, In f fs -> f_key f <> Z.to_N z) ->
  classify IntKeys fs (CInt z) = Some IdUnknown.
Proof. exact unknown_int_key. Qed.

Theorem c13_unknown_text_key : forall fs s,
  (forall f, In f fs -> f_name f <> s) ->
  classify IntKeys fs (CText s) = Some IdUnknown /\ classify IntKeys fs (CBytes s) = Some IdUnknown.
Proof. exact unknown_text_key. Qed.

Theorem c13_unknown_keys_ignored : forall fs es1 es2 k v,
  classify IntKeys (map fst fs) k = Some IdUnknown ->
  de_kind (KIStruct fs) (CMap (es1 ++ (k, v) :: es2)) = de_kind (KIStruct fs) (CMap (es1 ++ es2)).
Proof. exact msg_insert_unknown. Qed.

(** the same on the bytes *)
Theorem c13_unknown_keys_ignored_bytes : forall fs es1 es2 k v,
  classify IntKeys (map fst fs) k = Some IdUnknown ->
  cbor_wf (CMap (es1 ++ (k, v) :: es2)) = true -> (depth (CMap (es1 ++ (k, v) :: es2)) < cbor_fuel)%nat ->
  cbor_wf (CMap (es1 ++ es2)) = true -> (depth (CMap (es1 ++ es2)) < cbor_fuel)%nat ->
  de_msg fs (cbor_encode (CMap (es1 ++ (k, v) :: es2))) = de_msg fs (cbor_encode (CMap (es1 ++ es2))).
Proof. exact msg_bytes_insert_unknown. Qed.

(** all unknown entries at once, for the visitor of any struct *)
Theorem c13_unknown_entries_filtered : forall m fs es,
  de_struct m fs es = de_struct m fs (filter (fun kv => negb (is_unknown m fs (fst kv))) es).
Proof. exact de_struct_ignores_unknown. Qed.

(** (5) Keys the visitor rejects: integers above 255 and negative integers (and, by
    [classify], everything that is neither an integer nor a string). *)
Theorem c13_key_out_of_range : forall fs z, (z < 0 \/ 255 < z)%Z -> classify IntKeys fs (CInt z) = None.
Proof. exact bad_int_key. Qed.

Theorem c13_rejected_key_is_error : forall fs es k v,
  In (k, v) es -> classify IntKeys (map fst fs) k = None -> de_kind (KIStruct fs) (CMap es) = None.
Proof. exact msg_bad_key. Qed.

(** (6) A member given twice - under any two keys that denote it - is an error. *)
Theorem c13_duplicate_is_error : forall fs i k1 v1 k2 v2 es1 es2 es3,
  classify IntKeys (map fst fs) k1 = Some (IdField i) -> classify IntKeys (map fst fs) k2 = Some (IdField i) ->
  de_kind (KIStruct fs) (CMap (es1 ++ (k1, v1) :: es2 ++ (k2, v2) :: es3)) = None.
Proof. exact msg_duplicate. Qed.

(** (7) A missing member without a default is an error. *)
Theorem c13_missing_required_is_error : forall fs es i f,
  nth_error (map fst fs) i = Some f -> f_dflt f = DRequired ->
  (forall k v, In (k, v) es -> classify IntKeys (map fst fs) k <> Some (IdField i)) ->
  de_kind (KIStruct fs) (CMap es) = None.
Proof. exact msg_missing_required. Qed.

(** (8) Defaults of [options] in both requests: left out altogether, or given with any subset
    of rk/up/uv, the missing options are up = true, rk = false, uv = false. *)
Theorem c13_options_defaults : options_defaults_ok MC_REQUEST = true /\ options_defaults_ok GA_REQUEST = true.
Proof. exact options_defaults. Qed.

(** (9) Status bytes: total, invertible; the classes partition the byte range except for 0x00,
    which is in both enums and resolves to [Ctap2Error::Ok]. *)
Theorem c13_status_round_trip : forall b, b < 256 ->
  exists s, status_of_byte b = Some s /\ byte_of_status s = b.
Proof. exact status_round_trip. Qed.

Theorem c13_status_classes : forall b, b < 256 -> class_count b = (if b =? 0 then 2%nat else 1%nat).
Proof. exact status_classes_partition. Qed.

Theorem c13_status_zero : exists i, status_of_byte 0 = Some (S_Known i) /\ name_at CTAP2_TABLE i = "Ok"%string.
Proof. exact status_zero_is_ctap2_ok. Qed.

(** (10) The client: [authenticate] reports 0x2E as CredentialNotFound and passes every other byte
    through; [register] passes every byte through, 0x2E included. *)
Theorem c13_client_status : forall b s, b < 256 -> status_of_byte b = Some s ->
  authenticate_error s = (if b =? CTAP2_ERR_NO_CREDENTIALS then WNamed "CredentialNotFound" else WAuthenticatorError b)
  /\ webauthn_error_of_status s = authenticate_error s
  /\ register_error s = WAuthenticatorError b.
Proof. exact client_status_mapping. Qed.

(** (11) The oracle of the correspondence run (Wire/CtapCheck.v: the statement of C13 on one
    observation, from the specification tables alone: top level a definite map in shortest form,
    keys exactly the specified numbers of the members present, strictly ascending, no optional
    member null, reads back equal; status byte converts back, authenticate reports it as
    specified) is true of everything the model produces. *)
Theorem c13_model_passes_oracle_ser : forall msg fs vals,
  In (msg, fs) ALL_MESSAGES -> wt_fields fs vals = true ->
  cbor_wf (ser_struct IntKeys (map fst fs) vals) = true ->
  (depth (ser_struct IntKeys (map fst fs) vals) < cbor_fuel)%nat ->
  oracle (CSer msg vals (present_names fs vals) (ser_msg fs vals)
               (enc_opt (de_msg fs (ser_msg fs vals)))) = true.
Proof. exact model_passes_oracle_ser. Qed.

Theorem c13_model_passes_oracle_status : forall b s, b < 256 -> status_of_byte b = Some s ->
  oracle (CStatus b (class_name s) (variant_name s) (byte_of_status s)
                  (webauthn_error_of_status s) (authenticate_error s) (register_error s)) = true.
Proof. exact model_passes_oracle_status. Qed.

(** non-vacuity: a getAssertion request with an allow list, options and no extensions meets the
    hypotheses of (3); an unknown key, a text key and a duplicate behave as (4)-(6) say *)
Definition ex_ga_request : list (option cbor) :=
  [Some (CText [101; 120]);                                   (* rpId "ex" *)
   Some (CBytes (repeat 7 32));                               (* clientDataHash *)
   Some (CArr [CMap [(CText [116; 121; 112; 101], CText [112; 117; 98; 108; 105; 99; 45; 107; 101; 121]);
                     (CText [105; 100], CBytes [1; 2; 3])]]); (* allowList [{type: "public-key", id: h'010203'}] *)
   None;                                                      (* extensions *)
   Some (CMap [(CText [114; 107], CBool false); (CText [117; 112], CBool true); (CText [117; 118], CBool true)]);
   None; Some (CInt 1)].

Example c13_example_hypotheses :
  In ("GA_REQUEST"%string, GA_REQUEST) ALL_MESSAGES /\ wt_fields GA_REQUEST ex_ga_request = true
  /\ cbor_wf (ser_struct IntKeys (map fst GA_REQUEST) ex_ga_request) = true
  /\ (depth (ser_struct IntKeys (map fst GA_REQUEST) ex_ga_request) < cbor_fuel)%nat.
Proof.
  split; [right; right; left; reflexivity|]. split; [vm_compute; reflexivity|].
  split; [vm_compute; reflexivity|]. vm_compute. repeat constructor.
Qed.

Example c13_example_round_trip :
  de_msg GA_REQUEST (ser_msg GA_REQUEST ex_ga_request) = Some (ser_struct IntKeys (map fst GA_REQUEST) ex_ga_request)
  /\ firstn 4 (ser_msg GA_REQUEST ex_ga_request) = [165; 1; 98; 101].      (* a5 01 62 "e" *)
Proof. split; vm_compute; reflexivity. Qed.

Example c13_example_unknown_and_duplicate :
  let es := ser_entries IntKeys (map fst GA_REQUEST) ex_ga_request in
  de_kind (KIStruct GA_REQUEST) (CMap ((CInt 10, CNull) :: es ++ [(CText [102; 111; 111], CInt 1)]))
    = de_kind (KIStruct GA_REQUEST) (CMap es)
  /\ de_kind (KIStruct GA_REQUEST) (CMap (es ++ [(CText [114; 112; 73; 100], CText [])])) = None     (* "rpId" again *)
  /\ de_kind (KIStruct GA_REQUEST) (CMap (tl es)) = None                                            (* rpId missing *)
  /\ de_kind (KIStruct GA_REQUEST) (CMap ((CInt 256, CNull) :: es)) = None
  /\ de_kind (KIStruct GA_REQUEST) (CMap ((CInt (-1), CNull) :: es)) = None.
Proof. repeat split; vm_compute; reflexivity. Qed.

Print Assumptions c13_member_numbers.
Print Assumptions c13_wire_keys.
Print Assumptions c13_wire_keys_ascending.
Print Assumptions c13_absent_members_omitted.
Print Assumptions c13_round_trip.
Print Assumptions c13_message_round_trip.
Print Assumptions c13_visitor_round_trip.
Print Assumptions c13_typed_round_trip.
Print Assumptions c13_u128_canonical.
Print Assumptions c13_authdata_canonical.
Print Assumptions c13_unknown_keys_ignored_bytes.
Print Assumptions c13_unknown_int_key.
Print Assumptions c13_unknown_text_key.
Print Assumptions c13_unknown_keys_ignored.
Print Assumptions c13_unknown_entries_filtered.
Print Assumptions c13_key_out_of_range.
Print Assumptions c13_rejected_key_is_error.
Print Assumptions c13_duplicate_is_error.
Print Assumptions c13_missing_required_is_error.
Print Assumptions c13_options_defaults.
Print Assumptions c13_status_round_trip.
Print Assumptions c13_status_classes.
Print Assumptions c13_status_zero.
Print Assumptions c13_client_status.
Print Assumptions c13_model_passes_oracle_ser.
Print Assumptions c13_model_passes_oracle_status.
