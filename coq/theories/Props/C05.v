(** C05 - credentials are used only for their own RP and as the allow/exclude lists say.
    Statements only; proofs in Auth/StoreFacts.v, Auth/Store.v, Auth/C05Facts.v, Auth/History.v. *)
From PK Require Import Auth.History.
Open Scope N_scope.

(** (a) The assertion ceremony, for every request, configuration and answer script: its first store
    call is the lookup with the request's RP ID and the allow list when that is non-empty (no id list
    otherwise); the credential used is the first one of the answer ([j_get], see Auth/StoreFacts.v). *)
Theorem c05_assertion_lookup : forall ad_bytes c q script,
  j_get ad_bytes q (filter (fun ea => storeI (fst ea)) (fst (interp (get_assertion ad_bytes c q) script)))
                   (snd (interp (get_assertion ad_bytes c q) script)) = true.
Proof. exact get_assertion_store_all. Qed.

(** (b) The registration ceremony: the exclude list is consulted iff non-empty, with exactly the
    listed ids and the request's RP ID; a non-empty answer ends it with CredentialExcluded and nothing
    is saved ([j_make]). *)
Theorem c05_registration_lookup : forall c q script,
  j_make c q (filter (fun ea => storeI (fst ea)) (fst (interp (make_credential c q) script)))
             (snd (interp (make_credential c q) script)) = true.
Proof. exact make_credential_store_all. Qed.

(** (c) With any store whose lookup answers follow the documented contract: an assertion for RP ID R
    is produced only with a stored credential bound to R and, when a non-empty allow list is given,
    named in it; the user handle returned is the one stored with it. *)
Theorem c05_assertion_isolation : forall ad_bytes c q script st r,
  lookups_follow_contract st (fst (interp (get_assertion ad_bytes c q) script)) ->
  snd (interp (get_assertion ad_bytes c q) script) = Some (Ok r) ->
  exists cred0,
    In cred0 st /\ pk_rp_id cred0 = ga_rp_id q /\ pk_cred_id cred0 = gr_cred_id r
    /\ gr_user_handle r = pk_user_handle cred0
    /\ (forall l, ga_allow q = Some l -> l <> [] -> In (gr_cred_id r) l).
Proof. exact assertion_isolation. Qed.

(** (d) ... and registration ends with CredentialExcluded (or is cut), creating nothing, when a
    non-empty exclude list names a credential already held for the same RP. *)
Theorem c05_registration_excluded : forall c q script st l,
  lookups_follow_contract st (fst (interp (make_credential c q) script)) ->
  mc_exclude q = Some l -> l <> [] ->
  (exists p, In p st /\ pk_rp_id p = rp_id (mc_rp q) /\ In (pk_cred_id p) l) ->
  forall ids rp a, In (EFind ids rp, a) (fst (interp (make_credential c q) script)) ->
  err_or_cut CTAP2_CredentialExcluded (snd (interp (make_credential c q) script)) = true
  /\ filter (fun ea => mutates (fst ea)) (fst (interp (make_credential c q) script)) = [].
Proof. exact registration_excluded. Qed.

(** (e) Conversely a successful registration saw its exclude lookup (if any) answered empty or with
    an error: see [j_make_ok_inv] (the events before the save are lookups and capability queries only;
    a lookup answered with credentials ends the ceremony). *)
Theorem c05_registration_ok_reading : forall c q evs r,
  j_make c q evs (Some (Ok r)) = true ->
  exists pre d p,
    evs = pre ++ [(EStoreInfo, AInfo d); (ESave p (mc_user q) (mc_rp q) (mc_opts q), AUnit (Ok tt))]
    /\ Forall (fun ev => match fst ev with EFind _ _ | EStoreInfo => True | _ => False end) pre
    /\ saved_passkey_ok c q d p = true /\ response_matches c q p r = true.
Proof. exact j_make_ok_inv. Qed.

(** (f) The stores. The reference store and the single-slot Option store implement the contract; the
    in-memory map implements it outside the two recorded classes (a lookup without an id list; an id
    naming a credential stored for another RP), which are genuine departures (witness below). *)
Theorem c05_reference_store_contract : forall st ids rp, contract_answer st ids rp (ref_find st ids rp).
Proof. exact ref_store_contract. Qed.

Theorem c05_option_store_contract : forall slot ids rp,
  contract_answer (slot_content slot) ids rp (opt_find slot ids rp).
Proof. exact option_store_contract. Qed.

Theorem c05_memory_store_contract_outside_known_class : forall st ids rp,
  unique_ids st -> ~ mem_known_class st ids rp -> contract_answer st ids rp (mem_find st ids rp).
Proof. exact memory_store_contract. Qed.

(** against the reference store (which honours saves and updates): one successful assertion *)
Theorem c05_assertion_on_reference_store : forall ad_bytes c q st d script st' tr r,
  exec (get_assertion ad_bytes c q) st d script = (st', tr, Some (Ok r)) ->
  exists cred0,
    In cred0 st /\ pk_rp_id cred0 = ga_rp_id q /\ pk_cred_id cred0 = gr_cred_id r
    /\ gr_user_handle r = pk_user_handle cred0
    /\ (forall l, ga_allow q = Some l -> l <> [] -> In (gr_cred_id r) l)
    /\ match pk_counter cred0 with
       | Some n => st' = put st (bump_counter cred0 n) /\ ad_counter (gr_auth_data r) = Some (counter_next n)
       | None => st' = st /\ ad_counter (gr_auth_data r) = None
       end.
Proof. exact assert_step. Qed.

Print Assumptions c05_assertion_lookup.
Print Assumptions c05_registration_lookup.
Print Assumptions c05_assertion_isolation.
Print Assumptions c05_registration_excluded.
Print Assumptions c05_registration_ok_reading.
Print Assumptions c05_reference_store_contract.
Print Assumptions c05_option_store_contract.
Print Assumptions c05_memory_store_contract_outside_known_class.
Print Assumptions c05_assertion_on_reference_store.
