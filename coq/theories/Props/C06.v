(** C06 - private keys and PRF secrets never appear in anything handed back to callers.
    Statements only; proofs are in Auth/C06Facts.v.

    Shape: NONINTERFERENCE.  Take any ceremony of the model - CTAP2 [get_info], [make_credential],
    [get_assertion]; WebAuthn [register], [authenticate]; U2F [u2f_register], [u2f_authenticate] (Auth/U2f.v) - any
    configuration and request, and two runs whose environments answer the same EXCEPT for the secrets:
      - the private scalar [d] of a key-generation answer [AKey d x y] (any two scalars),
      - the answers to random draws made after key generation: the two per-credential PRF secrets of
        [make_hmac_secret] (any two byte strings; the credential id is drawn before and is public),
      - the contents of [k_d] and [pk_hmac] of the passkeys in lookup answers (any bytes; only their
        presence / absence agrees)
    ([scripts_sim], built from [ans_sim] / [secret_draw_sim] / [passkey_sim]).  Then the two runs
    return EQUAL results: every response, every error, cancellation.  Results are compared with plain
    equality - the response and error types have no secret-typed position.  Answers of [ESign] and
    [EHmac] (the signature, the PRF output) are required equal in the two runs: that is the permitted
    dependence, so the theorems say "outputs depend on the scalar only through signing and on a PRF
    secret only through the PRF".  The relation between the two runs is [prelS] (and [prelR], the same
    with a secret draw as a free constructor), a bisimulation up to secrets: at every step the calls of
    the two runs agree except in secret positions ([eff_sim]: the passkey handed to Save / Update /
    the user check up to [passkey_sim]; the key of Sign / Hmac unconstrained).

    Partial (by design, see DESIGN 5/C06): "the bytes of the secret do not occur in the output" is not a
    theorem (false for a caller that sends the secret as its challenge); it is the oracle of
    driver/c06.py, evaluated on every rendering (CBOR, JSON, Debug, raw U2F) of every value the real
    code hands back.  Debug output of third-party types is observed there, not modelled; the model of
    [Debug for Passkey] below is tied to the real output on every stored passkey of every run. *)
From PK Require Import Lib.Cbor Wire.AuthData Auth.C06Facts.
Open Scope N_scope.

(** the two-run relation, for every ceremony *)
Theorem c06_prel_get_info : forall c, prelR eq (get_info c) (get_info c).
Proof. exact prelR_get_info. Qed.
Theorem c06_prel_make_credential : forall c q, prelR eq (make_credential c q) (make_credential c q).
Proof. exact prelR_make_credential. Qed.
Theorem c06_prel_get_assertion : forall adb c q, prelR eq (get_assertion adb c q) (get_assertion adb c q).
Proof. exact prelR_get_assertion. Qed.
Theorem c06_prel_register : forall c domain origin q cd,
  prelR eq (register c domain origin q cd) (register c domain origin q cd).
Proof. exact prelR_register. Qed.
Theorem c06_prel_authenticate : forall c domain origin q cd,
  prelR eq (authenticate c domain origin q cd) (authenticate c domain origin q cd).
Proof. exact prelR_authenticate. Qed.
Theorem c06_prel_u2f_register : forall app chal handle,
  prelR eq (u2f_register app chal handle) (u2f_register app chal handle).
Proof. exact prelR_u2f_register. Qed.
Theorem c06_prel_u2f_authenticate : forall app chal kh counter presence,
  prelR eq (u2f_authenticate app chal kh counter presence) (u2f_authenticate app chal kh counter presence).
Proof. exact prelR_u2f_authenticate. Qed.

(** what the relation gives on executions: related programs run on scripts that agree up to secrets
    return related results and make calls that agree up to secret positions *)
Theorem c06_prelS_sound : forall (R1 R2 : Type) (RR : bool -> R1 -> R2 -> Prop) b p1 p2,
  prelS RR b p1 p2 -> forall s1 s2, scripts_sim b p1 s1 s2 ->
  opt_rel (fun r1 r2 => exists b', RR b' r1 r2) (snd (interp p1 s1)) (snd (interp p2 s2))
  /\ Forall2 event_sim (fst (interp p1 s1)) (fst (interp p2 s2)).
Proof. exact @prelS_interp. Qed.

(** ... instantiated: the result of every ceremony is the same in the two runs *)
Theorem c06_get_info : forall s1 s2 c,
  scripts_sim false (get_info c) s1 s2 -> snd (interp (get_info c) s1) = snd (interp (get_info c) s2).
Proof. exact C06Facts.c06_get_info. Qed.

Theorem c06_make_credential : forall s1 s2 c q,
  scripts_sim false (make_credential c q) s1 s2 ->
  snd (interp (make_credential c q) s1) = snd (interp (make_credential c q) s2).
Proof. exact C06Facts.c06_make_credential. Qed.

Theorem c06_get_assertion : forall s1 s2 adb c q,
  scripts_sim false (get_assertion adb c q) s1 s2 ->
  snd (interp (get_assertion adb c q) s1) = snd (interp (get_assertion adb c q) s2).
Proof. exact C06Facts.c06_get_assertion. Qed.

Theorem c06_register : forall s1 s2 c domain origin q cd,
  scripts_sim false (register c domain origin q cd) s1 s2 ->
  snd (interp (register c domain origin q cd) s1) = snd (interp (register c domain origin q cd) s2).
Proof. exact C06Facts.c06_register. Qed.

Theorem c06_authenticate : forall s1 s2 c domain origin q cd,
  scripts_sim false (authenticate c domain origin q cd) s1 s2 ->
  snd (interp (authenticate c domain origin q cd) s1) = snd (interp (authenticate c domain origin q cd) s2).
Proof. exact C06Facts.c06_authenticate. Qed.

Theorem c06_u2f_register : forall s1 s2 app chal handle,
  scripts_sim false (u2f_register app chal handle) s1 s2 ->
  snd (interp (u2f_register app chal handle) s1) = snd (interp (u2f_register app chal handle) s2).
Proof. exact C06Facts.c06_u2f_register. Qed.

Theorem c06_u2f_authenticate : forall s1 s2 app chal kh counter presence,
  scripts_sim false (u2f_authenticate app chal kh counter presence) s1 s2 ->
  snd (interp (u2f_authenticate app chal kh counter presence) s1)
  = snd (interp (u2f_authenticate app chal kh counter presence) s2).
Proof. exact C06Facts.c06_u2f_authenticate. Qed.

(** the calls of the two runs agree except in secret positions *)
Theorem c06_calls_make_credential : forall c q s1 s2,
  scripts_sim false (make_credential c q) s1 s2 ->
  Forall2 event_sim (fst (interp (make_credential c q) s1)) (fst (interp (make_credential c q) s2)).
Proof. exact C06Facts.c06_calls_make_credential. Qed.

Theorem c06_calls_get_assertion : forall adb c q s1 s2,
  scripts_sim false (get_assertion adb c q) s1 s2 ->
  Forall2 event_sim (fst (interp (get_assertion adb c q) s1)) (fst (interp (get_assertion adb c q) s2)).
Proof. exact C06Facts.c06_calls_get_assertion. Qed.

(** the debug rendering of a stored passkey ([{:?}] and [{:#?}]) is the same for two passkeys that
    differ in their secrets (and in nothing else): it reads the key-type label and the counter only *)
Theorem c06_debug_passkey : forall p1 p2,
  passkey_sim p1 p2 ->
  debug_passkey p1 = debug_passkey p2 /\ debug_passkey_pretty p1 = debug_passkey_pretty p2.
Proof. exact debug_passkey_public. Qed.

(** "the public key inside attested credential data carries public parameters only":
    for every execution of registration that succeeds, the attested credential data is present and its
    point is the (x, y) of the key-generation answer of that execution (never its [d]) ... *)
Theorem c06_attested_key : forall c q script r,
  snd (interp (make_credential c q) script) = Some (Ok r) ->
  exists a, ad_acd (mr_auth_data r) = Some a
            /\ run_monitor kg_step None (fst (interp (make_credential c q) script)) = Some (acd_x a, acd_y a)
            /\ acd_aaguid a = c_aaguid c.
Proof. exact C06Facts.c06_attested_key. Qed.

(** ... the COSE key built from it has exactly the labels kty, alg, crv, x, y - no label -4 ... *)
Theorem c06_attested_cose_labels : forall x y alg,
  cose_labels (ec2_pub_key 1 x y (Some alg)) = [CInt 1; CInt 3; CInt (-1); CInt (-2); CInt (-3)].
Proof. exact attested_cose_labels. Qed.

(** ... and the bytes the ceremonies emit for it ([ad_bytes]) are the CBOR encoding of that map *)
Theorem c06_attested_cose_bytes : forall x y,
  length x = 32%nat -> length y = 32%nat ->
  cose_pub_bytes x y ES256 = cbor_encode (ec2_pub_key 1 x y (Some ES256)).
Proof. exact attested_cose_bytes. Qed.

(** non-vacuity: a registration with the PRF extension that succeeds on two scripts which differ in the
    private scalar and in both PRF secrets (and in nothing else) *)
Definition ex_cfg : config :=
  {| c_aaguid := [0]; c_algs := [ES256]; c_counter := true; c_id_len := 16;
     c_hmac := Some {| h_without_uv := true; h_on_mc := true |} |}.
Definition ex_req : mc_request :=
  {| mc_cdh := [1]; mc_rp := {| rp_id := [97]; rp_name := None |};
     mc_user := {| u_id := [2]; u_name := None; u_display := None |}; mc_params := [ES256];
     mc_exclude := None;
     mc_ext := Some {| me_hmac_secret := None; me_hmac_secret_mc := false;
                       me_prf := Some {| pi_eval := Some {| pv_first := [5]; pv_second := None |}; pi_by_cred := None |} |};
     mc_opts := {| o_rk := false; o_up := true; o_uv := true |}; mc_pin_auth := false |}.
Definition ex_script (d w wo : bytes) : list answer :=
  [AOptBool (Some true); ACheck (Ok (true, true)); ABytes [9]; AKey d [2] [3]; ABytes w; ABytes wo;
   ABytes [21]; AInfo Full; AUnit (Ok tt)].

Example c06_example_scripts_related :
  scripts_sim false (make_credential ex_cfg ex_req) (ex_script [1] [11] [13]) (ex_script [7] [12] [14]).
Proof. cbn. repeat split; eauto. Qed.

Example c06_example_succeeds :
  exists r, snd (interp (make_credential ex_cfg ex_req) (ex_script [1] [11] [13])) = Some (Ok r)
            /\ mr_prf r = Some {| pm_enabled := true; pm_results := Some {| pv_first := [21]; pv_second := None |} |}.
Proof. eexists. split; reflexivity. Qed.

(** ... and the relation is not trivially true: a ceremony that put the scalar into its response is
    not related to itself *)
Definition leaky : prog bytes := kp <- keygen ;; let '(d, _, _) := kp in Ret d.
Example c06_example_leak_rejected : ~ prelR eq leaky leaky.
Proof.
  intros H. unfold leaky, keygen in H. cbn [bind] in H. inversion H as [| |e1 e2 k1 k2 He Hk E1 E2|]; subst.
  specialize (Hk (AKey [1] [] []) (AKey [2] [] []) (ex_intro _ [2] eq_refl)).
  cbn in Hk. inversion Hk as [r1 r2 E| | |]. discriminate E.
Qed.

(** *** where the secrets come from, in the source as it is now (extensions/hmac_secret.rs, lists regenerated on every run)

    The noninterference theorems above treat the two stored PRF secrets as independent random draws ([ERand]) that reach
    the outside only through [EHmac] results.  That is what the source does: each secret is assigned from [random_vec]
    and nothing else (no hash, no HMAC, no other secret is mentioned where a secret is made), a ceremony that evaluates
    the PRF draws and stores nothing, and the effects of extension processing are exactly those of the model. *)
From Coq Require Import String.
From PK Require Auth.SkeletonFacts Auth.gen.Skeleton Auth.OrderList.
Theorem c06_secret_provenance_in_source :
(  filter SkeletonFacts.is_effect_mark (Skeleton.SRC_MAKE_HMAC_SECRET ++ Skeleton.SRC_CALCULATE_HMAC_SECRET) = SkeletonFacts.expand "MakeExt"
  /\ filter SkeletonFacts.is_effect_mark Skeleton.SRC_CALCULATE_HMAC_SECRET = SkeletonFacts.expand "GetExt"
  /\ OrderList.before "CredWithUv" "Rand" Skeleton.SRC_MAKE_HMAC_SECRET = true
  /\ OrderList.before "CredWithoutUv" "WithoutUvCfg" Skeleton.SRC_MAKE_HMAC_SECRET = true
  /\ OrderList.first_pos "Hmac" Skeleton.SRC_MAKE_HMAC_SECRET = None /\ OrderList.first_pos "Sha256" Skeleton.SRC_MAKE_HMAC_SECRET = None
  /\ OrderList.first_pos "CalcHmac" Skeleton.SRC_MAKE_HMAC_SECRET = None
  /\ OrderList.first_pos "Rand" Skeleton.SRC_CALCULATE_HMAC_SECRET = None /\ OrderList.first_pos "Rand" Skeleton.SRC_GET_PRF = None
  /\ OrderList.first_pos "Rand" Skeleton.SRC_MAKE_PRF = None
  /\ OrderList.first_pos "Update" Skeleton.SRC_GET_PRF = None /\ OrderList.first_pos "Save" Skeleton.SRC_GET_PRF = None
  /\ OrderList.first_pos "Update" Skeleton.SRC_CALCULATE_HMAC_SECRET = None
  /\ OrderList.before "Err UserVerificationBlocked" "Hmac" Skeleton.SRC_CALCULATE_HMAC_SECRET = true)%string.
Proof. exact SkeletonFacts.source_secret_provenance. Qed.
Theorem c06_extension_source_is_the_modelled_one :
  Skeleton.SRC_MAKE_HMAC_SECRET = SkeletonFacts.EXP_MAKE_HMAC_SECRET /\ Skeleton.SRC_MAKE_PRF = SkeletonFacts.EXP_MAKE_PRF
  /\ Skeleton.SRC_GET_PRF = SkeletonFacts.EXP_GET_PRF /\ Skeleton.SRC_CALCULATE_HMAC_SECRET = SkeletonFacts.EXP_CALCULATE_HMAC_SECRET
  /\ Skeleton.SRC_SELECT_SALTS = SkeletonFacts.EXP_SELECT_SALTS.
Proof.
  exact (conj SkeletonFacts.src_make_hmac_secret_order (conj SkeletonFacts.src_make_prf_order (conj SkeletonFacts.src_get_prf_order
        (conj SkeletonFacts.src_calculate_hmac_secret_order SkeletonFacts.src_select_salts_order)))).
Qed.

Print Assumptions c06_prel_get_info.
Print Assumptions c06_prel_make_credential.
Print Assumptions c06_prel_get_assertion.
Print Assumptions c06_prel_register.
Print Assumptions c06_prel_authenticate.
Print Assumptions c06_prel_u2f_register.
Print Assumptions c06_prel_u2f_authenticate.
Print Assumptions c06_prelS_sound.
Print Assumptions c06_get_info.
Print Assumptions c06_make_credential.
Print Assumptions c06_get_assertion.
Print Assumptions c06_register.
Print Assumptions c06_authenticate.
Print Assumptions c06_u2f_register.
Print Assumptions c06_u2f_authenticate.
Print Assumptions c06_calls_make_credential.
Print Assumptions c06_calls_get_assertion.
Print Assumptions c06_debug_passkey.
Print Assumptions c06_attested_key.
Print Assumptions c06_attested_cose_labels.
Print Assumptions c06_attested_cose_bytes.
Print Assumptions c06_secret_provenance_in_source.
Print Assumptions c06_extension_source_is_the_modelled_one.
