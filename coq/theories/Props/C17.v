(** C17 - U2F registration and authentication messages are well-formed and verifiable.
    Statements only: each is closed by [exact] of a lemma proved in Wire/U2fWireFacts.v.
    This file carries the wire-level half (request parsing, response layouts, status word) and
    the U2F part of C15 (the parsers never panic, bounded allocation).  The ceremony-level half
    is added below from the authenticator ceremony model. *)
From PK Require Import Lib.Bytes Wire.U2fWire Wire.U2fWireFacts.
Open Scope N_scope.

(** (1) parsing the raw encoding of any well-formed register, authenticate (key handle of 0..255
    bytes, control byte 3, 7 or 8) or version request returns that request, whatever follows the
    request-data (no Le, a two-byte Le, anything else: the parser ignores it).
    [encode_request] is the extended-length format CLA INS P1 P2 | 0 Lc1 Lc2 | data. *)
Theorem c17_request_roundtrip : forall r le,
  wf_request r -> request_try_from (encode_request r ++ le) = Val r.
Proof. exact request_roundtrip. Qed.

(** the same for the ISO 7816-4 strict encoding, where Lc is omitted for empty request-data:
    register and authenticate for every Le; version for Le = 00 00 00 (Ne = 65536) *)
Theorem c17_request_roundtrip_iso : forall r ne,
  wf_request r -> r_data_len r <> 0 -> request_try_from (encode_request_iso r ne) = Val r.
Proof. exact request_roundtrip_iso_nonempty. Qed.

Theorem c17_version_roundtrip_iso : forall p1,
  request_try_from (encode_request_iso (version_request p1) (Some 65536)) = Val (version_request p1).
Proof. exact version_iso_le65536. Qed.

(** what the code does with the other ISO-strict version frames (Le announcing 1..65535 bytes):
    SW_WRONG_LENGTH.  Stated so that the behaviour is visible (also recorded in the evidence file). *)
Theorem c17_version_iso_short_le_is_rejected : forall p1 ne, 1 <= ne <= 65535 ->
  request_try_from (encode_request_iso (version_request p1) (Some ne)) = Err WrongLength.
Proof. exact version_iso_short_le_rejected. Qed.

(** (2) registration response: reserved byte 0x05, the 65-byte public key 0x04 x y, one-byte
    key-handle length, key handle, certificate, signature, then the status word 90 00 *)
Theorem c17_register_response_layout : forall x y kh cert sig,
  (length kh <= 255)%nat ->
  register_response_encode (RegResp (PubKey x y) kh cert sig) =
  [5] ++ ([4] ++ x ++ y) ++ [N.of_nat (length kh)] ++ kh ++ cert ++ sig ++ [144; 0].
Proof. exact register_response_layout. Qed.

Theorem c17_register_response_offsets : forall x y kh cert sig,
  length x = 32%nat -> length y = 32%nat -> (length kh <= 255)%nat ->
  let e := register_response_encode (RegResp (PubKey x y) kh cert sig) in
  nth 0 e 0 = 5 /\ nth 1 e 0 = 4 /\
  firstn 32 (skipn 2 e) = x /\ firstn 32 (skipn 34 e) = y /\
  nth 66 e 0 = N.of_nat (length kh) /\
  firstn (length kh) (skipn 67 e) = kh /\
  firstn (length cert) (skipn (67 + length kh) e) = cert /\
  skipn (67 + length kh + length cert) e = sig ++ [144; 0] /\
  length e = (67 + length kh + length cert + length sig + 2)%nat.
Proof. exact register_response_offsets. Qed.

(** (3) authentication response: presence byte, big-endian counter, signature, 90 00 *)
Theorem c17_authenticate_response_layout : forall presence counter sig,
  authentication_response_encode (AuthResp presence counter sig) =
  [presence] ++ be32 counter ++ sig ++ [144; 0].
Proof. exact authentication_response_layout. Qed.

Theorem c17_authenticate_response_offsets : forall presence counter sig,
  counter < 4294967296 ->
  let e := authentication_response_encode (AuthResp presence counter sig) in
  nth 0 e 0 = presence /\
  be32_dec (nth 1 e 0) (nth 2 e 0) (nth 3 e 0) (nth 4 e 0) = counter /\
  skipn 5 e = sig ++ [144; 0] /\
  length e = (5 + length sig + 2)%nat.
Proof. exact authentication_response_offsets. Qed.

(** (4) version response: "U2F_V2" 90 00 *)
Theorem c17_version_response : version_encode = [85; 50; 70; 95; 86; 50; 144; 0].
Proof. exact version_response_layout. Qed.

(** every successful response ends with the status word SW_NO_ERROR *)
Theorem c17_responses_end_with_no_error :
  (forall r, exists body, register_response_encode r = body ++ [144; 0]) /\
  (forall r, exists body, authentication_response_encode r = body ++ [144; 0]) /\
  (exists body, version_encode = body ++ [144; 0]).
Proof. exact responses_end_with_no_error. Qed.

Theorem c17_status_words :
  map sw_value all_status_words = [36864; 27013; 27264; 26368; 28160; 27904].
Proof. exact status_word_values. Qed.

(** (5) the frame parser is total: no list of numbers, of any length, makes it panic
    (every index, range index, unwrap and unreachable of the source is a [Panic] in the model);
    shared with C15 *)
Theorem c17_parser_total : forall value, request_try_from value <> Panic.
Proof. exact request_try_from_no_panic. Qed.

(** and a successful parse produced only what it read: the declared length fits in the frame
    behind the 7-byte header, the produced fields fit in the declared length and are the bytes
    of the frame; the one heap allocation it requests (the key-handle copy) is at least 72 bytes
    smaller than the input *)
Theorem c17_parser_reads_frame : forall value r,
  request_try_from value = Val r ->
  r_cla r = 0 /\
  7 + r_data_len r <= N.of_nat (length value) /\
  payload_fields_len (r_data r) <= r_data_len r /\
  firstn (N.to_nat (payload_fields_len (r_data r))) (skipn 7 value) = payload_bytes (r_data r) /\
  firstn 3 value = [0; command_to_u8 (r_ins r); r_p1 r] /\
  payload_shape (r_data r).
Proof. exact request_try_from_val. Qed.

Theorem c17_parser_cost : forall value,
  Forall (fun n => (n + 72 <= length value)%nat) (request_allocs value) /\
  (length (request_allocs value) <= 1)%nat.
Proof. exact request_try_from_cost. Qed.

(** the payload parsers called directly: register never panics; authenticate does not panic for
    the control bytes of the specification ... *)
Theorem c17_register_parser_total : forall data, register_request_try_from data <> Panic.
Proof. exact register_request_no_panic. Qed.

Theorem c17_authenticate_parser_total_on_control_bytes : forall data p1,
  p1 = 3 \/ p1 = 7 \/ p1 = 8 -> authentication_request_try_from data p1 <> Panic.
Proof. exact authentication_request_no_panic_378. Qed.

(** ... and panics exactly on a correctly laid out payload with any other parameter byte: the
    known finding (public infallible [From<u8> for AuthenticationParameter], [unreachable!]) *)
Theorem c17_authenticate_parser_panic_class : forall data p1,
  authentication_request_try_from data p1 = Panic <->
  auth_layout_ok data = true /\ is_control_byte p1 = false.
Proof. exact authentication_request_panic_iff. Qed.

Theorem c17_authenticate_parser_panic_witness :
  authentication_request_try_from (repeat 0 65) 0 = Panic.
Proof. exact authentication_request_panic_witness. Qed.

(** non-vacuity: concrete well-formed requests of each kind, with and without Le *)
Example c17_example_register :
  let r := Req 0 CmdRegister 0 64 (PRegister (RegReq (repeat 1 32) (repeat 2 32))) in
  wf_request r /\ request_try_from (encode_request r) = Val r /\
  request_try_from (encode_request r ++ [0; 0]) = Val r.
Proof. vm_compute. repeat split; reflexivity. Qed.

Example c17_example_authenticate :
  let r := Req 0 CmdAuthenticate 7 (65 + 3)
               (PAuthenticate (AuthReq CheckOnly (repeat 1 32) (repeat 2 32) [9; 8; 7])) in
  wf_request r /\ request_try_from (encode_request r ++ [1; 0]) = Val r.
Proof. vm_compute. repeat split; try reflexivity. repeat constructor. Qed.

Example c17_example_version :
  encode_request (version_request 0) = [0; 3; 0; 0; 0; 0; 0] /\
  request_try_from [0; 3; 0; 0; 0; 0; 0] = Val (version_request 0).
Proof. vm_compute. split; reflexivity. Qed.

(** ------------------------------------------------------------------------------------------
    CEREMONY-LEVEL STATEMENTS (to be added by the lead from the authenticator ceremony model):
      - registration: the signature verifies under the returned key over
        0x00 || application || challenge || key handle || 0x04 || x || y; one credential is stored
        with rp_id = base64url(application), credential_id = key handle, counter = Some 0;
      - authentication with a stored handle: the signature verifies under the same key over
        application || presence || be32 counter || challenge;
      - unknown key handle: error, no signature.
    ------------------------------------------------------------------------------------------ *)

(** *** ceremony level: [<Authenticator as U2fApi>::{register, authenticate}] (model Auth/U2f.v, proofs
    Auth/U2fFacts.v).  Imported here, after the wire-level statements, so that [Ok]/[Err] above are the
    wire model's and below the ceremony model's. *)
From PK Require Import Auth.U2fFacts.

(** a successful registration made exactly three calls: key generation, a signature with that private
    key over 0x00 || application || challenge || key handle || 0x04 || x || y, and one save of a
    credential for base64url(application) and the key handle holding that private key with counter 0 *)
Theorem c17_register_ceremony : forall app chal h script tr resp,
  interp (u2f_register app chal h) script = (tr, Some (Ok resp)) ->
  exists d x y sg u,
    tr = [ (EKeyGen, AKey d x y);
           (ESign d ([0] ++ app ++ chal ++ h ++ ([4] ++ x ++ y)), ABytes sg);
           (ESave (u2f_passkey app h d x y) {| u_id := h; u_name := None; u_display := None |}
                  {| rp_id := u2f_rp_id app; rp_name := None |} U2F_OPTIONS, AUnit (Ok u)) ]
    /\ resp = RegResp (PubKey x y) h [] sg.
Proof. exact u2f_register_ok. Qed.

Theorem c17_register_store_error_is_reported : forall app chal h script tr res e p u rp o,
  interp (u2f_register app chal h) script = (tr, Some res) ->
  In (ESave p u rp o, AUnit (Err e)) tr -> res = Err U2F_Other.
Proof. exact u2f_register_save_error. Qed.

(** on a store that honours saves, a successful registration leaves exactly that credential under the
    key handle and application (and the ids stay unique, so this applies along any history) *)
Theorem c17_register_stores_credential : forall app chal h st dsc script st' tr resp,
  unique_ids st ->
  exec (u2f_register app chal h) st dsc script = (st', tr, Some (Ok resp)) ->
  exists d sg,
    st' = put st (u2f_passkey app h d (pk_x (rs_public_key resp)) (pk_y (rs_public_key resp)))
    /\ resp = RegResp (rs_public_key resp) h [] sg
    /\ In (ESign d (u2f_register_target app chal h (pk_x (rs_public_key resp)) (pk_y (rs_public_key resp))), ABytes sg) tr
    /\ ref_find st' (Some [h]) (u2f_rp_id app)
       = Ok [u2f_passkey app h d (pk_x (rs_public_key resp)) (pk_y (rs_public_key resp))]
    /\ unique_ids st'.
Proof. exact u2f_register_stores. Qed.

(** a successful authentication looked the key handle up under base64url(application), used the first
    credential answered and signed application || presence || be32 counter || challenge with its key *)
Theorem c17_authenticate_ceremony : forall app chal kh ctr pres script tr resp,
  interp (u2f_authenticate app chal kh ctr pres) script = (tr, Some (Ok resp)) ->
  exists cred rest d sg,
    tr = [ (EFind (Some [kh]) (u2f_rp_id app), AFind (Ok (cred :: rest)));
           (ESign d (app ++ [pres] ++ be32 ctr ++ chal), ABytes sg) ]
    /\ private_key (pk_key cred) = Ok d
    /\ resp = AuthResp pres ctr sg.
Proof. exact u2f_authenticate_ok. Qed.

Theorem c17_unknown_key_handle_fails : forall app chal kh ctr pres st dsc script,
  (forall p, In p st -> pk_cred_id p = kh -> pk_rp_id p <> u2f_rp_id app) ->
  exec (u2f_authenticate app chal kh ctr pres) st dsc script
  = (st, [(EFind (Some [kh]) (u2f_rp_id app), AFind (Ok []))], Some (Err U2F_Other)).
Proof. exact u2f_unknown_handle. Qed.

Theorem c17_authenticate_never_mutates : forall app chal kh ctr pres script (ea : eff * answer),
  In ea (fst (interp (u2f_authenticate app chal kh ctr pres) script)) ->
  mutates (fst ea) = false /\ (forall c up uv, fst ea <> ECheckUser c up uv).
Proof. exact u2f_authenticate_effects. Qed.

(** "a signature that verifies": for every signature scheme whose signatures verify under the matching
    public key ([verify_sign]) and every run whose key-generation and signing answers come from that
    scheme ([honest]); the scheme itself (p256's ECDSA) is not modelled - the correspondence run verifies
    the real signatures with independent P-256 arithmetic *)
Theorem c17_registration_signature_verifies :
  forall (pub_of : bytes -> bytes * bytes) (sign_with : bytes -> bytes -> bytes) (verify : bytes * bytes -> bytes -> bytes -> bool),
  (forall d m, verify (pub_of d) m (sign_with d m) = true) ->
  forall app chal h script tr resp,
  interp (u2f_register app chal h) script = (tr, Some (Ok resp)) -> honest pub_of sign_with tr ->
  verify (pk_x (rs_public_key resp), pk_y (rs_public_key resp))
         ([0] ++ app ++ chal ++ h ++ [4] ++ pk_x (rs_public_key resp) ++ pk_y (rs_public_key resp))
         (rs_signature resp) = true.
Proof. exact u2f_register_signature_verifies. Qed.

Theorem c17_later_authentication_verifies_under_the_same_key :
  forall (pub_of : bytes -> bytes * bytes) (sign_with : bytes -> bytes -> bytes) (verify : bytes * bytes -> bytes -> bytes -> bool),
  (forall d m, verify (pub_of d) m (sign_with d m) = true) ->
  forall app chal h st dsc script st1 tr1 resp chal2 ctr pres script2 st2 tr2 resp2,
  unique_ids st ->
  exec (u2f_register app chal h) st dsc script = (st1, tr1, Some (Ok resp)) -> honest pub_of sign_with tr1 ->
  exec (u2f_authenticate app chal2 h ctr pres) st1 dsc script2 = (st2, tr2, Some (Ok resp2)) -> honest pub_of sign_with tr2 ->
  st2 = st1
  /\ as_user_presence resp2 = pres /\ as_counter resp2 = ctr
  /\ verify (pk_x (rs_public_key resp), pk_y (rs_public_key resp))
            (app ++ [pres] ++ be32 ctr ++ chal2) (as_signature resp2) = true.
Proof. exact u2f_round_trip_signature_verifies. Qed.

(** the hypotheses are satisfiable: a registration followed by an authentication on an empty store *)
Example c17_round_trip_example :
  let app := repeat 7 32 in let chal := repeat 9 32 in let h := [1; 2; 3] in
  exists st1 tr1 resp,
    exec (u2f_register app chal h) [] Full [AKey [11] [12] [13]; ABytes [14]] = (st1, tr1, Some (Ok resp))
    /\ snd (exec (u2f_authenticate app chal h 5 1) st1 Full [ABytes [15]]) = Some (Ok (AuthResp 1 5 [15])).
Proof. vm_compute. eexists _, _, _. split; reflexivity. Qed.

Print Assumptions c17_request_roundtrip.
Print Assumptions c17_request_roundtrip_iso.
Print Assumptions c17_version_roundtrip_iso.
Print Assumptions c17_version_iso_short_le_is_rejected.
Print Assumptions c17_register_response_layout.
Print Assumptions c17_register_response_offsets.
Print Assumptions c17_authenticate_response_layout.
Print Assumptions c17_authenticate_response_offsets.
Print Assumptions c17_version_response.
Print Assumptions c17_responses_end_with_no_error.
Print Assumptions c17_status_words.
Print Assumptions c17_parser_total.
Print Assumptions c17_parser_reads_frame.
Print Assumptions c17_parser_cost.
Print Assumptions c17_register_parser_total.
Print Assumptions c17_authenticate_parser_total_on_control_bytes.
Print Assumptions c17_authenticate_parser_panic_class.
Print Assumptions c17_authenticate_parser_panic_witness.
Print Assumptions c17_register_ceremony.
Print Assumptions c17_register_store_error_is_reported.
Print Assumptions c17_register_stores_credential.
Print Assumptions c17_authenticate_ceremony.
Print Assumptions c17_unknown_key_handle_fails.
Print Assumptions c17_authenticate_never_mutates.
Print Assumptions c17_registration_signature_verifies.
Print Assumptions c17_later_authentication_verifies_under_the_same_key.
