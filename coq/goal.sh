#!/bin/bash
# usage: goal.sh FILE LINE  -> prints the goal state just before LINE (1-based) of FILE
f=$1; n=$2
d=$(dirname $f); b=$(basename $f .v)
head -n $((n-1)) $f > $d/_scratch_$b.v
echo "Show. Abort All." >> $d/_scratch_$b.v
timeout ${3:-300} coqc -Q /verif/coq/theories PK -w -notation-overridden $d/_scratch_$b.v 2>&1 | tail -${4:-60}
rm -f $d/_scratch_$b.* $d/._scratch_$b.aux
