use serde_json::{json, Value};

pub fn hex(b: &[u8]) -> String {
    let mut s = String::with_capacity(b.len() * 2);
    for x in b {
        s.push_str(&format!("{:02x}", x));
    }
    s
}

pub fn unhex(s: &str) -> Vec<u8> {
    assert!(s.len() % 2 == 0, "odd hex");
    (0..s.len() / 2)
        .map(|i| u8::from_str_radix(&s[2 * i..2 * i + 2], 16).expect("hex"))
        .collect()
}

/// Run a case, turning a panic into the observation `{"panic": true}`.
pub fn guarded<F: FnOnce() -> Value + std::panic::UnwindSafe>(f: F) -> Value {
    match std::panic::catch_unwind(f) {
        Ok(v) => v,
        Err(e) => {
            let msg = if let Some(s) = e.downcast_ref::<&str>() {
                s.to_string()
            } else if let Some(s) = e.downcast_ref::<String>() {
                s.clone()
            } else {
                "?".to_string()
            };
            json!({"panic": true, "msg": msg})
        }
    }
}

pub fn get_hex(v: &Value, key: &str) -> Vec<u8> {
    unhex(v[key].as_str().unwrap_or_else(|| panic!("missing hex field {key}")))
}
