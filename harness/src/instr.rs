//! Instrumented implementations of the two public traits of passkey-authenticator
//! (`CredentialStore`, `UserValidationMethod`), JSON conversions of the values that cross them,
//! and a tiny deterministic executor.  Shared by the ceremony-level harness binaries.
#![allow(clippy::all)]
use crate::{hex, unhex};
use coset::{iana, CoseKey, CoseKeyBuilder, Label, RegisteredLabel, RegisteredLabelWithPrivate};
use passkey_authenticator::{
    CredentialStore, DiscoverabilitySupport, MemoryStore, StoreInfo, UserCheck, UserValidationMethod,
};
use passkey_types::{
    ctap2::{
        get_assertion::Options,
        make_credential::{PublicKeyCredentialRpEntity, PublicKeyCredentialUserEntity},
        Ctap2Error, StatusCode,
    },
    webauthn::PublicKeyCredentialDescriptor,
    CredentialExtensions, Passkey, StoredHmacSecret,
};
use serde_json::{json, Value};
use std::collections::HashMap;
use std::future::Future;
use std::pin::Pin;
use std::sync::{Arc, Mutex};
use std::task::{Context, Poll, Wake, Waker};

// ------------------------------------------------------------------------------------------------
// executor

struct NoopWake;
impl Wake for NoopWake {
    fn wake(self: Arc<Self>) {}
}

pub fn noop_waker() -> Waker {
    Waker::from(Arc::new(NoopWake))
}

/// Poll a future to completion on this thread (every pending is followed by another poll).
pub fn block_on<F: Future>(f: F) -> F::Output {
    let mut f = Box::pin(f);
    let w = noop_waker();
    let mut cx = Context::from_waker(&w);
    let mut n = 0u64;
    loop {
        if let Poll::Ready(v) = f.as_mut().poll(&mut cx) {
            return v;
        }
        n += 1;
        if n > 10_000_000 {
            panic!("block_on: no progress (deadlock?)");
        }
    }
}

/// Poll at most `n` times; `None` = still pending (the caller then drops the future: cancellation).
pub fn poll_n<F: Future>(f: F, n: usize) -> Option<F::Output> {
    let mut f = Box::pin(f);
    let w = noop_waker();
    let mut cx = Context::from_waker(&w);
    for _ in 0..n {
        if let Poll::Ready(v) = f.as_mut().poll(&mut cx) {
            return Some(v);
        }
    }
    None
}

/// A future that is pending exactly once.
pub struct YieldOnce(bool);
impl Future for YieldOnce {
    type Output = ();
    fn poll(mut self: Pin<&mut Self>, cx: &mut Context<'_>) -> Poll<()> {
        if self.0 {
            Poll::Ready(())
        } else {
            self.0 = true;
            cx.waker().wake_by_ref();
            Poll::Pending
        }
    }
}
pub fn yield_once() -> YieldOnce {
    YieldOnce(false)
}

// ------------------------------------------------------------------------------------------------
// JSON <-> values

pub fn status_to_u8(s: StatusCode) -> u8 {
    u8::from(s)
}

pub fn opt_hex(v: &Value) -> Option<Vec<u8>> {
    v.as_str().map(unhex)
}

/// Build a COSE key from its JSON description
/// `{"es256":bool,"ec2":bool,"d":hex|null,"x":hex,"y":hex}`.
pub fn key_from_json(v: &Value) -> CoseKey {
    let x = unhex(v["x"].as_str().unwrap());
    let y = unhex(v["y"].as_str().unwrap());
    let mut key = match opt_hex(&v["d"]) {
        Some(d) => CoseKeyBuilder::new_ec2_priv_key(iana::EllipticCurve::P_256, x, y, d).build(),
        None => CoseKeyBuilder::new_ec2_pub_key(iana::EllipticCurve::P_256, x, y).build(),
    };
    key.alg = Some(RegisteredLabelWithPrivate::Assigned(
        if v["es256"].as_bool().unwrap_or(true) {
            iana::Algorithm::ES256
        } else {
            iana::Algorithm::ES384
        },
    ));
    if !v["ec2"].as_bool().unwrap_or(true) {
        key.kty = RegisteredLabel::Assigned(iana::KeyType::OKP);
    }
    key
}

fn param_bytes(key: &CoseKey, label: i64) -> Option<Vec<u8>> {
    key.params.iter().find_map(|(k, v)| match k {
        Label::Int(i) if *i == label => v.as_bytes().cloned(),
        _ => None,
    })
}

/// The view of a COSE key the ceremonies have: algorithm/key-type labels, the scalar when it is a
/// well-formed P-256 scalar, and the coordinates.
pub fn key_to_json(key: &CoseKey) -> Value {
    let es256 = matches!(
        key.alg,
        Some(RegisteredLabelWithPrivate::Assigned(iana::Algorithm::ES256))
    );
    let ec2 = matches!(key.kty, RegisteredLabel::Assigned(iana::KeyType::EC2));
    let d = param_bytes(key, -4).filter(|b| p256::SecretKey::from_slice(b).is_ok());
    json!({
        "es256": es256, "ec2": ec2,
        "d": d.map(|b| hex(&b)),
        "x": hex(&param_bytes(key, -2).unwrap_or_default()),
        "y": hex(&param_bytes(key, -3).unwrap_or_default()),
    })
}

pub fn passkey_from_json(v: &Value) -> Passkey {
    Passkey {
        key: key_from_json(&v["key"]),
        credential_id: unhex(v["cred_id"].as_str().unwrap()).into(),
        rp_id: String::from_utf8(unhex(v["rp_id"].as_str().unwrap())).expect("rp_id utf8"),
        user_handle: opt_hex(&v["user_handle"]).map(Into::into),
        counter: v["counter"].as_u64().map(|c| c as u32),
        extensions: CredentialExtensions {
            hmac_secret: if v["hmac"].is_null() {
                None
            } else {
                Some(StoredHmacSecret {
                    cred_with_uv: unhex(v["hmac"]["w"].as_str().unwrap()),
                    cred_without_uv: opt_hex(&v["hmac"]["wo"]),
                })
            },
        },
    }
}

pub fn passkey_to_json(p: &Passkey) -> Value {
    json!({
        "key": key_to_json(&p.key),
        "cred_id": hex(&p.credential_id),
        "rp_id": hex(p.rp_id.as_bytes()),
        "user_handle": p.user_handle.as_ref().map(|b| hex(b)),
        "counter": p.counter,
        "hmac": p.extensions.hmac_secret.as_ref().map(|h| json!({
            "w": hex(&h.cred_with_uv),
            "wo": h.cred_without_uv.as_ref().map(|b| hex(b)),
        })),
    })
}

pub fn opt_str_hex(s: &Option<String>) -> Value {
    match s {
        Some(s) => Value::String(hex(s.as_bytes())),
        None => Value::Null,
    }
}

fn result_unit(r: &Result<(), StatusCode>) -> Value {
    match r {
        Ok(()) => json!({"ok": null}),
        Err(_) => unreachable!(),
    }
}

// ------------------------------------------------------------------------------------------------
// stores

/// The documented lookup contract: match the id list (when given) AND the RP ID, in store order.
pub struct RefStore {
    pub items: Vec<Passkey>,
    pub disc: u8, // 0 full, 1 only non discoverable, 2 forced
    pub empty_is_err: bool,
    /// `Some(n)`: a store of fixed capacity - saving a NEW credential into a store that holds n answers KeyStoreFull
    pub capacity: Option<usize>,
}

fn disc_of(d: u8) -> DiscoverabilitySupport {
    match d {
        0 => DiscoverabilitySupport::Full,
        1 => DiscoverabilitySupport::OnlyNonDiscoverable,
        _ => DiscoverabilitySupport::ForcedDiscoverable,
    }
}

#[async_trait::async_trait]
impl CredentialStore for RefStore {
    type PasskeyItem = Passkey;
    async fn find_credentials(
        &self,
        ids: Option<&[PublicKeyCredentialDescriptor]>,
        rp_id: &str,
    ) -> Result<Vec<Passkey>, StatusCode> {
        let found: Vec<Passkey> = self
            .items
            .iter()
            .filter(|p| p.rp_id == rp_id)
            .filter(|p| match ids {
                None => true,
                Some(ids) => ids.iter().any(|d| d.id == p.credential_id),
            })
            .cloned()
            .collect();
        if found.is_empty() && self.empty_is_err {
            Err(Ctap2Error::NoCredentials.into())
        } else {
            Ok(found)
        }
    }
    async fn save_credential(
        &mut self,
        cred: Passkey,
        _user: PublicKeyCredentialUserEntity,
        _rp: PublicKeyCredentialRpEntity,
        _options: Options,
    ) -> Result<(), StatusCode> {
        if let Some(slot) = self.items.iter_mut().find(|p| p.credential_id == cred.credential_id) {
            *slot = cred;
        } else {
            if self.capacity.is_some_and(|n| self.items.len() >= n) {
                return Err(Ctap2Error::KeyStoreFull.into());
            }
            self.items.push(cred);
        }
        Ok(())
    }
    async fn update_credential(&mut self, cred: Passkey) -> Result<(), StatusCode> {
        if let Some(slot) = self.items.iter_mut().find(|p| p.credential_id == cred.credential_id) {
            *slot = cred;
        } else {
            self.items.push(cred);
        }
        Ok(())
    }
    async fn get_info(&self) -> StoreInfo {
        StoreInfo { discoverability: disc_of(self.disc) }
    }
}

/// Every store kind the checks use, behind one type.
pub enum AnyStore {
    Ref(RefStore),
    Memory(MemoryStore),
    Opt(Option<Passkey>),
    ArcMutexMemory(Arc<tokio::sync::Mutex<MemoryStore>>),
    ArcRwLockMemory(Arc<tokio::sync::RwLock<MemoryStore>>),
    MutexMemory(tokio::sync::Mutex<MemoryStore>),
    RwLockMemory(tokio::sync::RwLock<MemoryStore>),
    ArcMutexOpt(Arc<tokio::sync::Mutex<Option<Passkey>>>),
    ArcRwLockRef(Arc<tokio::sync::RwLock<RefStore>>),
    ArcMutexRef(Arc<tokio::sync::Mutex<RefStore>>),
}

/// A lock on a shared store held by "somebody else" (another handle on the same Arc) for a while: what a
/// concurrent ceremony meets when it reaches a store call.
pub enum HeldLock {
    MemW(tokio::sync::OwnedRwLockWriteGuard<MemoryStore>),
    MemR(tokio::sync::OwnedRwLockReadGuard<MemoryStore>),
    RefW(tokio::sync::OwnedRwLockWriteGuard<RefStore>),
    RefR(tokio::sync::OwnedRwLockReadGuard<RefStore>),
    MemM(tokio::sync::OwnedMutexGuard<MemoryStore>),
    RefM(tokio::sync::OwnedMutexGuard<RefStore>),
    OptM(tokio::sync::OwnedMutexGuard<Option<Passkey>>),
}

impl AnyStore {
    /// Take the lock of a shared (Arc) store from outside, `write` = exclusive where the lock distinguishes.
    pub fn hold(&self, write: bool) -> Option<HeldLock> {
        match self {
            AnyStore::ArcRwLockMemory(a) if write => a.clone().try_write_owned().ok().map(HeldLock::MemW),
            AnyStore::ArcRwLockMemory(a) => a.clone().try_read_owned().ok().map(HeldLock::MemR),
            AnyStore::ArcRwLockRef(a) if write => a.clone().try_write_owned().ok().map(HeldLock::RefW),
            AnyStore::ArcRwLockRef(a) => a.clone().try_read_owned().ok().map(HeldLock::RefR),
            AnyStore::ArcMutexMemory(a) => a.clone().try_lock_owned().ok().map(HeldLock::MemM),
            AnyStore::ArcMutexRef(a) => a.clone().try_lock_owned().ok().map(HeldLock::RefM),
            AnyStore::ArcMutexOpt(a) => a.clone().try_lock_owned().ok().map(HeldLock::OptM),
            _ => None,
        }
    }
}

macro_rules! any_store {
    ($self:expr, $s:ident => $e:expr) => {
        match $self {
            AnyStore::Ref($s) => $e,
            AnyStore::Memory($s) => $e,
            AnyStore::Opt($s) => $e,
            AnyStore::ArcMutexMemory($s) => $e,
            AnyStore::ArcRwLockMemory($s) => $e,
            AnyStore::MutexMemory($s) => $e,
            AnyStore::RwLockMemory($s) => $e,
            AnyStore::ArcMutexOpt($s) => $e,
            AnyStore::ArcRwLockRef($s) => $e,
            AnyStore::ArcMutexRef($s) => $e,
        }
    };
}

#[async_trait::async_trait]
impl CredentialStore for AnyStore {
    type PasskeyItem = Passkey;
    async fn find_credentials(
        &self,
        ids: Option<&[PublicKeyCredentialDescriptor]>,
        rp_id: &str,
    ) -> Result<Vec<Passkey>, StatusCode> {
        any_store!(self, s => s.find_credentials(ids, rp_id).await)
    }
    async fn save_credential(
        &mut self,
        cred: Passkey,
        user: PublicKeyCredentialUserEntity,
        rp: PublicKeyCredentialRpEntity,
        options: Options,
    ) -> Result<(), StatusCode> {
        any_store!(self, s => s.save_credential(cred, user, rp, options).await)
    }
    async fn update_credential(&mut self, cred: Passkey) -> Result<(), StatusCode> {
        any_store!(self, s => s.update_credential(cred).await)
    }
    async fn get_info(&self) -> StoreInfo {
        any_store!(self, s => s.get_info().await)
    }
}

fn memory_of(items: Vec<Passkey>) -> MemoryStore {
    let mut m = MemoryStore::new();
    for p in items {
        m.insert(p.credential_id.clone().into(), p);
    }
    m
}

impl AnyStore {
    /// `{"kind": .., "disc": "full"|"only_non"|"forced", "empty_is_err": bool, "content": [passkey]}`
    pub fn from_json(v: &Value) -> AnyStore {
        let items: Vec<Passkey> = v["content"]
            .as_array()
            .map(|a| a.iter().map(passkey_from_json).collect())
            .unwrap_or_default();
        let disc = match v["disc"].as_str().unwrap_or("full") {
            "full" => 0,
            "only_non" => 1,
            _ => 2,
        };
        let rs = |items| RefStore { items, disc, empty_is_err: v["empty_is_err"].as_bool().unwrap_or(false), capacity: v["capacity"].as_u64().map(|n| n as usize) };
        match v["kind"].as_str().unwrap() {
            "ref" => AnyStore::Ref(rs(items)),
            "memory" => AnyStore::Memory(memory_of(items)),
            "option" => AnyStore::Opt(items.into_iter().last()),
            "arc_mutex_memory" => AnyStore::ArcMutexMemory(Arc::new(tokio::sync::Mutex::new(memory_of(items)))),
            "arc_rwlock_memory" => AnyStore::ArcRwLockMemory(Arc::new(tokio::sync::RwLock::new(memory_of(items)))),
            "mutex_memory" => AnyStore::MutexMemory(tokio::sync::Mutex::new(memory_of(items))),
            "rwlock_memory" => AnyStore::RwLockMemory(tokio::sync::RwLock::new(memory_of(items))),
            "arc_mutex_option" => AnyStore::ArcMutexOpt(Arc::new(tokio::sync::Mutex::new(items.into_iter().last()))),
            "arc_rwlock_ref" => AnyStore::ArcRwLockRef(Arc::new(tokio::sync::RwLock::new(rs(items)))),
            "arc_mutex_ref" => AnyStore::ArcMutexRef(Arc::new(tokio::sync::Mutex::new(rs(items)))),
            k => panic!("unknown store kind {k}"),
        }
    }

    /// A second handle on the same shared store (only for the Arc kinds).
    pub fn share(&self) -> Option<AnyStore> {
        match self {
            AnyStore::ArcMutexMemory(a) => Some(AnyStore::ArcMutexMemory(a.clone())),
            AnyStore::ArcRwLockMemory(a) => Some(AnyStore::ArcRwLockMemory(a.clone())),
            AnyStore::ArcMutexOpt(a) => Some(AnyStore::ArcMutexOpt(a.clone())),
            AnyStore::ArcRwLockRef(a) => Some(AnyStore::ArcRwLockRef(a.clone())),
            AnyStore::ArcMutexRef(a) => Some(AnyStore::ArcMutexRef(a.clone())),
            _ => None,
        }
    }

    /// Something done to a shared store from outside a ceremony (the lock is free: ceremonies lock per store call):
    /// `{"act":"replace","p":passkey}` (insert or replace the record with that credential id), `{"act":"remove","id":hex}`,
    /// `{"act":"set_disc","disc":..}` (reference store: its capability changes).
    pub fn apply_action(&self, act: &Value) {
        fn on_ref(r: &mut RefStore, act: &Value) {
            match act["act"].as_str().unwrap() {
                "replace" => {
                    let p = passkey_from_json(&act["p"]);
                    if let Some(slot) = r.items.iter_mut().find(|q| q.credential_id == p.credential_id) { *slot = p } else { r.items.push(p) }
                }
                "remove" => { let id = crate::unhex(act["id"].as_str().unwrap()); r.items.retain(|q| q.credential_id.as_slice() != id.as_slice()) }
                "set_disc" => r.disc = match act["disc"].as_str().unwrap() { "full" => 0, "only_non" => 1, _ => 2 },
                k => panic!("unknown action {k}"),
            }
        }
        fn on_mem(m: &mut MemoryStore, act: &Value) {
            match act["act"].as_str().unwrap() {
                "replace" => { let p = passkey_from_json(&act["p"]); m.insert(p.credential_id.clone().into(), p); }
                "remove" => { let id = crate::unhex(act["id"].as_str().unwrap()); m.retain(|_, q| q.credential_id.as_slice() != id.as_slice()) }
                _ => {}
            }
        }
        fn on_opt(o: &mut Option<Passkey>, act: &Value) {
            match act["act"].as_str().unwrap() {
                "replace" => *o = Some(passkey_from_json(&act["p"])),
                "remove" => { let id = crate::unhex(act["id"].as_str().unwrap()); if o.as_ref().is_some_and(|q| q.credential_id.as_slice() == id.as_slice()) { *o = None } }
                _ => {}
            }
        }
        match self {
            AnyStore::ArcMutexMemory(a) => on_mem(&mut a.try_lock().expect("store locked during the prompt"), act),
            AnyStore::ArcRwLockMemory(a) => on_mem(&mut a.try_write().expect("store locked during the prompt"), act),
            AnyStore::ArcMutexOpt(a) => on_opt(&mut a.try_lock().expect("store locked during the prompt"), act),
            AnyStore::ArcRwLockRef(a) => on_ref(&mut a.try_write().expect("store locked during the prompt"), act),
            AnyStore::ArcMutexRef(a) => on_ref(&mut a.try_lock().expect("store locked during the prompt"), act),
            _ => panic!("prompt-time actions need a shared (Arc) store"),
        }
    }

    /// Content sorted by credential id (canonical form for comparison). Ref stores keep order.
    pub fn snapshot(&self) -> Value {
        fn mem(m: &MemoryStore) -> Vec<Value> {
            let mut v: Vec<&Passkey> = m.values().collect();
            v.sort_by(|a, b| a.credential_id.as_slice().cmp(b.credential_id.as_slice()));
            v.into_iter().map(passkey_to_json).collect()
        }
        fn refs(r: &RefStore) -> Vec<Value> {
            r.items.iter().map(passkey_to_json).collect()
        }
        let items: Vec<Value> = match self {
            AnyStore::Ref(r) => refs(r),
            AnyStore::Memory(m) => mem(m),
            AnyStore::Opt(o) => o.iter().map(passkey_to_json).collect(),
            AnyStore::ArcMutexMemory(a) => mem(&a.try_lock().expect("store locked at snapshot")),
            AnyStore::ArcRwLockMemory(a) => mem(&a.try_read().expect("store locked at snapshot")),
            AnyStore::MutexMemory(a) => mem(&a.try_lock().expect("store locked at snapshot")),
            AnyStore::RwLockMemory(a) => mem(&a.try_read().expect("store locked at snapshot")),
            AnyStore::ArcMutexOpt(a) => a.try_lock().expect("locked").iter().map(passkey_to_json).collect(),
            AnyStore::ArcRwLockRef(a) => refs(&a.try_read().expect("locked")),
            AnyStore::ArcMutexRef(a) => refs(&a.try_lock().expect("locked")),
        };
        Value::Array(items)
    }
}

// ------------------------------------------------------------------------------------------------
// logging / fault injecting / yielding wrappers

#[derive(Default)]
pub struct Shared {
    pub log: Vec<Value>,
    /// number of store calls made so far (index of the next one)
    pub store_calls: usize,
    /// store call index -> status byte to return instead of performing the call
    pub faults: HashMap<usize, u8>,
    /// yield (pending once) before every store call and every user check
    pub yield_before_calls: bool,
    /// tag added to every log entry (which ceremony made the call), for schedules
    pub tag: Option<u64>,
    /// a second handle on the shared store (Arc kinds): what the application / another session can do to the store while
    /// a ceremony waits in the consent prompt (`"during"` actions of a user script entry)
    pub prompt_store: Option<AnyStore>,
}

pub type SharedRef = Arc<Mutex<Shared>>;

pub struct LogStore {
    pub inner: AnyStore,
    pub sh: SharedRef,
    pub tag: Option<u64>,
}

impl LogStore {
    fn fault(&self) -> Option<StatusCode> {
        let mut s = self.sh.lock().unwrap();
        let k = s.store_calls;
        s.store_calls += 1;
        s.faults.get(&k).map(|b| StatusCode::from(*b))
    }
    fn push(&self, mut v: Value) {
        if let Some(t) = self.tag {
            v["tag"] = json!(t);
        }
        self.sh.lock().unwrap().log.push(v);
    }
    async fn maybe_yield(&self) {
        let y = self.sh.lock().unwrap().yield_before_calls;
        if y {
            yield_once().await;
        }
    }
}

#[async_trait::async_trait]
impl CredentialStore for LogStore {
    type PasskeyItem = Passkey;
    async fn find_credentials(
        &self,
        ids: Option<&[PublicKeyCredentialDescriptor]>,
        rp_id: &str,
    ) -> Result<Vec<Passkey>, StatusCode> {
        self.maybe_yield().await;
        let r = match self.fault() {
            Some(e) => Err(e),
            None => self.inner.find_credentials(ids, rp_id).await,
        };
        let rj = match &r {
            Ok(v) => json!({"ok": v.iter().map(passkey_to_json).collect::<Vec<_>>()}),
            Err(e) => json!({"err": u8::from(clone_status(e))}),
        };
        self.push(json!({
            "c": "find",
            "ids": ids.map(|l| l.iter().map(|d| hex(&d.id)).collect::<Vec<_>>()),
            "rp": hex(rp_id.as_bytes()),
            "r": rj,
        }));
        r
    }
    async fn save_credential(
        &mut self,
        cred: Passkey,
        user: PublicKeyCredentialUserEntity,
        rp: PublicKeyCredentialRpEntity,
        options: Options,
    ) -> Result<(), StatusCode> {
        self.maybe_yield().await;
        let entry = json!({
            "c": "save",
            "p": passkey_to_json(&cred),
            "user": {"id": hex(&user.id), "name": opt_str_hex(&user.name), "display": opt_str_hex(&user.display_name)},
            "rp": {"id": hex(rp.id.as_bytes()), "name": opt_str_hex(&rp.name)},
            "opts": {"rk": options.rk, "up": options.up, "uv": options.uv},
        });
        let r = match self.fault() {
            Some(e) => Err(e),
            None => self.inner.save_credential(cred, user, rp, options).await,
        };
        let mut entry = entry;
        entry["r"] = match &r {
            Ok(()) => json!({"ok": null}),
            Err(e) => json!({"err": u8::from(clone_status(e))}),
        };
        self.push(entry);
        r
    }
    async fn update_credential(&mut self, cred: Passkey) -> Result<(), StatusCode> {
        self.maybe_yield().await;
        let mut entry = json!({"c": "update", "p": passkey_to_json(&cred)});
        let r = match self.fault() {
            Some(e) => Err(e),
            None => self.inner.update_credential(cred).await,
        };
        entry["r"] = match &r {
            Ok(()) => json!({"ok": null}),
            Err(e) => json!({"err": u8::from(clone_status(e))}),
        };
        self.push(entry);
        r
    }
    async fn get_info(&self) -> StoreInfo {
        self.maybe_yield().await;
        // get_info cannot fail; it still counts as a store call for fault indexing
        let _ = self.fault();
        let info = self.inner.get_info().await;
        let d = match info.discoverability {
            DiscoverabilitySupport::Full => "full",
            DiscoverabilitySupport::OnlyNonDiscoverable => "only_non",
            DiscoverabilitySupport::ForcedDiscoverable => "forced",
        };
        self.push(json!({"c": "info", "r": d}));
        info
    }
}

pub fn clone_status(s: &StatusCode) -> StatusCode {
    // StatusCode is not Clone; go through its byte
    let b: u8 = match s {
        StatusCode::Ctap1(e) => (*e).into(),
        StatusCode::Ctap2(c) => match c {
            passkey_types::ctap2::Ctap2Code::Known(k) => (*k).into(),
            other => status_code_byte(other),
        },
    };
    StatusCode::from(b)
}

fn status_code_byte(c: &passkey_types::ctap2::Ctap2Code) -> u8 {
    // Ctap2Code's non-Known variants wrap a byte but are not Clone/Copy; recover it via Debug
    // formatting of the inner tuple struct, e.g. `Other(UnknownSpecError(7))`.
    let s = format!("{:?}", c);
    let digits: String = s.chars().filter(|ch| ch.is_ascii_digit()).collect();
    digits.parse::<u16>().map(|v| v as u8).unwrap_or(0x7f)
}

pub struct ScriptedUser {
    pub verif_enabled: Option<bool>,
    pub presence_enabled: bool,
    /// answers of successive check_user calls; the last one repeats
    pub script: Vec<Value>,
    pub pos: Mutex<usize>,
    pub sh: SharedRef,
    pub tag: Option<u64>,
}

impl ScriptedUser {
    pub fn from_json(v: &Value, sh: SharedRef, tag: Option<u64>) -> Self {
        ScriptedUser {
            verif_enabled: v["verif_enabled"].as_bool(),
            presence_enabled: v["presence_enabled"].as_bool().unwrap_or(true),
            script: v["script"].as_array().cloned().unwrap_or_default(),
            pos: Mutex::new(0),
            sh,
            tag,
        }
    }
    fn push(&self, mut v: Value) {
        if let Some(t) = self.tag {
            v["tag"] = json!(t);
        }
        self.sh.lock().unwrap().log.push(v);
    }
}

#[async_trait::async_trait]
impl UserValidationMethod for ScriptedUser {
    type PasskeyItem = Passkey;
    async fn check_user<'a>(
        &self,
        credential: Option<&'a Passkey>,
        presence: bool,
        verification: bool,
    ) -> Result<UserCheck, Ctap2Error> {
        let y = self.sh.lock().unwrap().yield_before_calls;
        if y {
            yield_once().await;
        }
        let ans = {
            let mut pos = self.pos.lock().unwrap();
            let a = if self.script.is_empty() {
                json!({"presence": true, "verification": true})
            } else {
                self.script[(*pos).min(self.script.len() - 1)].clone()
            };
            *pos += 1;
            a
        };
        // what happens to the shared store while the prompt is on screen
        if let Some(acts) = ans["during"].as_array() {
            let sh = self.sh.lock().unwrap();
            let st = sh.prompt_store.as_ref().expect("\"during\" actions need a shared (Arc) store");
            for a in acts {
                st.apply_action(a);
            }
        }
        let (r, rj) = if let Some(code) = ans["err"].as_u64() {
            let e = Ctap2Error::try_from(code as u8).expect("scripted user error must be a known CTAP2 error code");
            (Err(e), json!({"err": code}))
        } else {
            let p = ans["presence"].as_bool().unwrap();
            let v = ans["verification"].as_bool().unwrap();
            (Ok(UserCheck { presence: p, verification: v }), json!({"ok": [p, v]}))
        };
        self.push(json!({
            "c": "check",
            "cred": credential.map(passkey_to_json),
            "up": presence, "uv": verification,
            "r": rj,
        }));
        r
    }
    fn is_presence_enabled(&self) -> bool {
        self.push(json!({"c": "presence", "r": self.presence_enabled}));
        self.presence_enabled
    }
    fn is_verification_enabled(&self) -> Option<bool> {
        self.push(json!({"c": "verif", "r": self.verif_enabled}));
        self.verif_enabled
    }
}

#[allow(dead_code)]
fn _unused(r: &Result<(), StatusCode>) -> Value {
    result_unit(r)
}
