//! Correspondence harness: runs the real passkey-rs code on cases read from stdin
//! (one JSON object per line) and prints one JSON object per line with what it observed.
//! Every domain is a module with `fn run_case(&serde_json::Value) -> serde_json::Value`.
use std::io::{BufRead, Write};

mod hid;
pub mod util;

fn main() {
    let domain = std::env::args().nth(1).expect("usage: pkharness <domain>");
    // keep panic messages out of stderr noise; panics are observations here
    std::panic::set_hook(Box::new(|_| {}));
    let stdin = std::io::stdin();
    let stdout = std::io::stdout();
    let mut out = std::io::BufWriter::new(stdout.lock());
    for line in stdin.lock().lines() {
        let line = line.expect("read");
        if line.trim().is_empty() {
            continue;
        }
        let case: serde_json::Value = serde_json::from_str(&line).expect("case json");
        let res = match domain.as_str() {
            "hid" => util::guarded(|| hid::run_case(&case)),
            other => panic!("unknown domain {other}"),
        };
        serde_json::to_writer(&mut out, &res).unwrap();
        out.write_all(b"\n").unwrap();
    }
    out.flush().unwrap();
}
