//! Shared helpers for the correspondence harness binaries (one binary per domain under src/bin/).
//! Protocol: one JSON object per stdin line in, one JSON object per stdout line out.
use serde_json::{json, Value};
use std::io::{BufRead, Write};

pub mod instr;

pub fn hex(b: &[u8]) -> String {
    let mut s = String::with_capacity(b.len() * 2);
    for x in b {
        s.push_str(&format!("{:02x}", x));
    }
    s
}

pub fn unhex(s: &str) -> Vec<u8> {
    assert!(s.len() % 2 == 0, "odd hex");
    (0..s.len() / 2)
        .map(|i| u8::from_str_radix(&s[2 * i..2 * i + 2], 16).expect("hex"))
        .collect()
}

pub fn get_hex(v: &Value, key: &str) -> Vec<u8> {
    unhex(v[key].as_str().unwrap_or_else(|| panic!("missing hex field {key}")))
}

/// Run a case, turning a panic into the observation `{"panic": true, "msg": ..}`.
pub fn guarded<F: FnOnce() -> Value + std::panic::UnwindSafe>(f: F) -> Value {
    match std::panic::catch_unwind(f) {
        Ok(v) => v,
        Err(e) => {
            let msg = if let Some(s) = e.downcast_ref::<&str>() {
                s.to_string()
            } else if let Some(s) = e.downcast_ref::<String>() {
                s.clone()
            } else {
                "?".to_string()
            };
            json!({"panic": true, "msg": msg})
        }
    }
}

/// Main loop of a domain binary: every input line is a case, `f` produces the observation.
pub fn run_domain<F: Fn(&Value) -> Value + std::panic::RefUnwindSafe>(f: F) {
    // panics are observations here, keep their messages off stderr
    std::panic::set_hook(Box::new(|_| {}));
    let stdin = std::io::stdin();
    let stdout = std::io::stdout();
    let mut out = std::io::BufWriter::new(stdout.lock());
    for line in stdin.lock().lines() {
        let line = line.expect("read");
        if line.trim().is_empty() {
            continue;
        }
        let case: Value = serde_json::from_str(&line).expect("case json");
        let res = guarded(|| f(&case));
        serde_json::to_writer(&mut out, &res).unwrap();
        out.write_all(b"\n").unwrap();
    }
    out.flush().unwrap();
}
