//! CTAP2 message domain (C13): the integer-keyed messages of passkey-types through ciborium,
//! status bytes, and what the client makes of an authenticator status.
//!
//! ops
//!   {"op":"ser","t":KIND,"m":DESC}   DESC -> real struct -> ciborium::ser::into_writer -> {"hex":..}
//!                                    plus the struct read back from those bytes and written again
//!                                    ({"reser":..} or {"reser_err":..})
//!   {"op":"de","t":KIND,"hex":..}    ciborium::de::from_reader::<T> -> {"ok":true,"reser":hex,"dbg":..}
//!                                    or {"ok":false,"err":..}
//!   {"op":"status","b":u8}           StatusCode::from(b): class, variant name, u8::from(..),
//!                                    WebauthnError::from(..)
//!   {"op":"client_status","b":u8}    Client::authenticate / Client::register against a store whose
//!                                    calls fail with status b: the WebauthnError returned
//! KIND: mc_req mc_resp ga_req ga_resp gi_resp hmac
#![allow(clippy::all)]
use coset::iana::{self, EnumI64};
use passkey_authenticator::Authenticator;
use passkey_client::{Client, DefaultClientData, WebauthnError};
use passkey_types::{
    ctap2::{
        self,
        extensions::{
            AuthenticatorPrfGetOutputs, AuthenticatorPrfInputs, AuthenticatorPrfMakeOutputs,
            AuthenticatorPrfValues, HmacGetSecretInput,
        },
        get_assertion, get_info, make_credential, Aaguid, AuthenticatorData, Ctap2Code, StatusCode,
    },
    webauthn::{self, AuthenticatorTransport, PublicKeyCredentialDescriptor, PublicKeyCredentialType},
    Bytes,
};
use pkharness::instr::{block_on, AnyStore, LogStore, ScriptedUser, Shared};
use pkharness::{hex, unhex};
use serde_json::{json, Value};
use std::collections::HashMap;
use std::num::NonZeroU128;
use std::sync::{Arc, Mutex};

// ---------------------------------------------------------------------------------------------
// DESC -> structs

fn opt<'a>(v: &'a Value) -> Option<&'a Value> {
    if v.is_null() {
        None
    } else {
        Some(v)
    }
}
fn bytes(v: &Value) -> Bytes {
    unhex(v.as_str().expect("hex string")).into()
}
fn text(v: &Value) -> String {
    v.as_str().expect("string").to_owned()
}
fn cbor_value(v: &Value) -> ciborium::Value {
    ciborium::de::from_reader(unhex(v.as_str().expect("hex cbor")).as_slice()).expect("well-formed cbor in DESC")
}
fn u8_of(v: &Value) -> u8 {
    u8::try_from(v.as_u64().expect("u8")).expect("u8 range")
}
fn arr32(v: &Value) -> [u8; 32] {
    let b = unhex(v.as_str().expect("hex32"));
    b.as_slice().try_into().expect("32 bytes")
}
fn cred_type(v: &Value) -> PublicKeyCredentialType {
    match v.as_str().expect("type") {
        "public-key" => PublicKeyCredentialType::PublicKey,
        "unknown" => PublicKeyCredentialType::Unknown,
        t => panic!("credential type {t}"),
    }
}
fn transport(v: &Value) -> AuthenticatorTransport {
    match v.as_str().expect("transport") {
        "usb" => AuthenticatorTransport::Usb,
        "nfc" => AuthenticatorTransport::Nfc,
        "ble" => AuthenticatorTransport::Ble,
        "hybrid" => AuthenticatorTransport::Hybrid,
        "internal" => AuthenticatorTransport::Internal,
        t => panic!("transport {t}"),
    }
}
fn transports(v: &Value) -> Option<Vec<AuthenticatorTransport>> {
    opt(v).map(|l| l.as_array().expect("transports").iter().map(transport).collect())
}
fn descriptor(v: &Value) -> PublicKeyCredentialDescriptor {
    PublicKeyCredentialDescriptor { ty: cred_type(&v["ty"]), id: bytes(&v["id"]), transports: transports(&v["transports"]) }
}
fn descriptors(v: &Value) -> Option<Vec<PublicKeyCredentialDescriptor>> {
    opt(v).map(|l| l.as_array().expect("descriptors").iter().map(descriptor).collect())
}
fn options(v: &Value) -> make_credential::Options {
    make_credential::Options {
        rk: v["rk"].as_bool().expect("rk"),
        up: v["up"].as_bool().expect("up"),
        uv: v["uv"].as_bool().expect("uv"),
    }
}
fn hmac_input(v: &Value) -> HmacGetSecretInput {
    HmacGetSecretInput {
        key_agreement: cbor_value(&v["key_agreement"]),
        salt_enc: bytes(&v["salt_enc"]),
        salt_auth: bytes(&v["salt_auth"]),
        pin_uv_auth_protocol: opt(&v["pin_uv_auth_protocol"]).map(u8_of),
    }
}
fn prf_values(v: &Value) -> AuthenticatorPrfValues {
    AuthenticatorPrfValues { first: arr32(&v["first"]), second: opt(&v["second"]).map(arr32) }
}
fn prf_inputs(v: &Value) -> AuthenticatorPrfInputs {
    AuthenticatorPrfInputs {
        eval: opt(&v["eval"]).map(prf_values),
        eval_by_credential: opt(&v["eval_by_credential"]).map(|l| {
            l.as_array()
                .expect("eval_by_credential")
                .iter()
                .map(|kv| (bytes(&kv[0]), prf_values(&kv[1])))
                .collect::<HashMap<_, _>>()
        }),
    }
}
fn user(v: &Value) -> webauthn::PublicKeyCredentialUserEntity {
    webauthn::PublicKeyCredentialUserEntity { id: bytes(&v["id"]), display_name: text(&v["display_name"]), name: text(&v["name"]) }
}
fn auth_data(v: &Value) -> AuthenticatorData {
    AuthenticatorData::from_slice(&unhex(v.as_str().expect("auth data hex"))).expect("auth data in DESC parses")
}

fn mc_req(m: &Value) -> make_credential::Request {
    make_credential::Request {
        client_data_hash: bytes(&m["client_data_hash"]),
        rp: make_credential::PublicKeyCredentialRpEntity { id: text(&m["rp"]["id"]), name: opt(&m["rp"]["name"]).map(text) },
        user: user(&m["user"]),
        pub_key_cred_params: m["pub_key_cred_params"]
            .as_array()
            .expect("params")
            .iter()
            .map(|p| webauthn::PublicKeyCredentialParameters {
                ty: cred_type(&p["ty"]),
                alg: iana::Algorithm::from_i64(p["alg"].as_i64().expect("alg")).expect("registered algorithm"),
            })
            .collect(),
        exclude_list: descriptors(&m["exclude_list"]),
        extensions: opt(&m["extensions"]).map(|e| make_credential::ExtensionInputs {
            hmac_secret: e["hmac_secret"].as_bool(),
            hmac_secret_mc: opt(&e["hmac_secret_mc"]).map(hmac_input),
            prf: opt(&e["prf"]).map(prf_inputs),
        }),
        options: options(&m["options"]),
        pin_auth: opt(&m["pin_auth"]).map(bytes),
        pin_protocol: opt(&m["pin_protocol"]).map(u8_of),
    }
}
fn mc_resp(m: &Value) -> make_credential::Response {
    make_credential::Response {
        fmt: text(&m["fmt"]),
        auth_data: auth_data(&m["auth_data"]),
        att_stmt: cbor_value(&m["att_stmt"]),
        ep_att: m["ep_att"].as_bool(),
        large_blob_key: opt(&m["large_blob_key"]).map(bytes),
        unsigned_extension_outputs: opt(&m["unsigned_extension_outputs"]).map(|u| make_credential::UnsignedExtensionOutputs {
            prf: opt(&u["prf"]).map(|p| AuthenticatorPrfMakeOutputs {
                enabled: p["enabled"].as_bool().expect("enabled"),
                results: opt(&p["results"]).map(prf_values),
            }),
        }),
    }
}
fn ga_req(m: &Value) -> get_assertion::Request {
    get_assertion::Request {
        rp_id: text(&m["rp_id"]),
        client_data_hash: bytes(&m["client_data_hash"]),
        allow_list: descriptors(&m["allow_list"]),
        extensions: opt(&m["extensions"]).map(|e| get_assertion::ExtensionInputs {
            hmac_secret: opt(&e["hmac_secret"]).map(hmac_input),
            prf: opt(&e["prf"]).map(prf_inputs),
        }),
        options: options(&m["options"]),
        pin_auth: opt(&m["pin_auth"]).map(bytes),
        pin_protocol: opt(&m["pin_protocol"]).map(u8_of),
    }
}
fn ga_resp(m: &Value) -> get_assertion::Response {
    get_assertion::Response {
        credential: opt(&m["credential"]).map(descriptor),
        auth_data: auth_data(&m["auth_data"]),
        signature: bytes(&m["signature"]),
        user: opt(&m["user"]).map(user),
        number_of_credentials: opt(&m["number_of_credentials"]).map(u8_of),
        user_selected: m["user_selected"].as_bool(),
        large_blob_key: opt(&m["large_blob_key"]).map(bytes),
        unsigned_extension_outputs: opt(&m["unsigned_extension_outputs"]).map(|u| get_assertion::UnsignedExtensionOutputs {
            prf: opt(&u["prf"]).map(|p| AuthenticatorPrfGetOutputs { results: prf_values(&p["results"]) }),
        }),
    }
}
fn gi_resp(m: &Value) -> get_info::Response {
    get_info::Response {
        versions: m["versions"]
            .as_array()
            .expect("versions")
            .iter()
            .map(|v| match v.as_str().expect("version") {
                "U2F_V2" => get_info::Version::U2F_V2,
                "FIDO_2_0" => get_info::Version::FIDO_2_0,
                s => get_info::Version::Unknown(s.to_owned()),
            })
            .collect(),
        extensions: opt(&m["extensions"]).map(|l| {
            l.as_array()
                .expect("extensions")
                .iter()
                .map(|v| match v.as_str().expect("extension") {
                    "hmac-secret" => get_info::Extension::HmacSecret,
                    "hmac-secret-mc" => get_info::Extension::HmacSecretMakeCredential,
                    "prf" => get_info::Extension::Prf,
                    s => get_info::Extension::Unknown(s.to_owned()),
                })
                .collect()
        }),
        aaguid: {
            let b = unhex(m["aaguid"].as_str().expect("aaguid"));
            Aaguid(b.as_slice().try_into().expect("16 bytes"))
        },
        options: opt(&m["options"]).map(|o| get_info::Options {
            plat: o["plat"].as_bool().expect("plat"),
            rk: o["rk"].as_bool().expect("rk"),
            client_pin: o["client_pin"].as_bool(),
            up: o["up"].as_bool().expect("up"),
            uv: o["uv"].as_bool(),
        }),
        max_msg_size: opt(&m["max_msg_size"])
            .map(|s| NonZeroU128::new(s.as_str().expect("decimal string").parse::<u128>().expect("u128")).expect("non zero")),
        pin_protocols: opt(&m["pin_protocols"]).map(|l| l.as_array().expect("pin protocols").iter().map(u8_of).collect()),
        transports: transports(&m["transports"]),
    }
}

// ---------------------------------------------------------------------------------------------

fn to_cbor<T: serde::Serialize>(t: &T) -> Result<Vec<u8>, String> {
    let mut out = Vec::new();
    ciborium::ser::into_writer(t, &mut out).map_err(|e| format!("{e:?}"))?;
    Ok(out)
}

fn ser_as<T: serde::Serialize + serde::de::DeserializeOwned>(t: T) -> Value {
    match to_cbor(&t) {
        Err(e) => json!({"ser_err": e}),
        Ok(b) => match ciborium::de::from_reader::<T, _>(b.as_slice()) {
            Err(e) => json!({"hex": hex(&b), "reser_err": format!("{e:?}")}),
            Ok(t2) => match to_cbor(&t2) {
                Ok(b2) => json!({"hex": hex(&b), "reser": hex(&b2)}),
                Err(e) => json!({"hex": hex(&b), "reser_err": e}),
            },
        },
    }
}

fn de_as<T: serde::Serialize + serde::de::DeserializeOwned + std::fmt::Debug>(b: &[u8]) -> Value {
    match ciborium::de::from_reader::<T, _>(b) {
        Err(e) => {
            let s: String = format!("{e:?}").chars().take(160).collect();
            json!({"ok": false, "err": s})
        }
        Ok(t) => {
            let d: String = format!("{t:?}").chars().take(400).collect();
            match to_cbor(&t) {
                Ok(b2) => json!({"ok": true, "reser": hex(&b2), "dbg": d}),
                Err(e) => json!({"ok": true, "reser_err": e, "dbg": d}),
            }
        }
    }
}

fn werr_json(e: &WebauthnError) -> Value {
    match e {
        WebauthnError::AuthenticatorError(b) => json!({"auth_err": b}),
        other => json!({"named": format!("{other:?}")}),
    }
}

fn status(b: u8) -> Value {
    let (class, name) = match StatusCode::from(b) {
        StatusCode::Ctap1(e) => ("ctap1", format!("{e:?}")),
        StatusCode::Ctap2(Ctap2Code::Known(e)) => ("known", format!("{e:?}")),
        StatusCode::Ctap2(Ctap2Code::Other(_)) => ("other", String::new()),
        StatusCode::Ctap2(Ctap2Code::Extension(_)) => ("extension", String::new()),
        StatusCode::Ctap2(Ctap2Code::Vendor(_)) => ("vendor", String::new()),
    };
    let back: u8 = StatusCode::from(b).into();
    let w: WebauthnError = StatusCode::from(b).into();
    json!({"class": class, "name": name, "back": back, "werr": werr_json(&w)})
}

type Auth = Authenticator<LogStore, ScriptedUser>;

fn failing_client(b: u8) -> Client<LogStore, ScriptedUser, public_suffix::PublicSuffixList> {
    let sh = Arc::new(Mutex::new(Shared::default()));
    {
        // every store call fails with the status byte (get_info cannot fail and ignores it)
        let mut s = sh.lock().unwrap();
        for k in 0..16 {
            s.faults.insert(k, b);
        }
    }
    let store = AnyStore::from_json(&json!({"kind": "memory", "content": []}));
    let ls = LogStore { inner: store, sh: sh.clone(), tag: None };
    let us = ScriptedUser::from_json(&json!({"verif_enabled": true, "presence_enabled": true}), sh, None);
    let auth: Auth = Authenticator::new(Aaguid::new_empty(), ls, us);
    Client::new(auth)
}

fn client_status(b: u8) -> Value {
    let origin = url::Url::parse("https://future.1password.com").unwrap();
    let request = webauthn::CredentialRequestOptions {
        public_key: webauthn::PublicKeyCredentialRequestOptions {
            challenge: vec![7u8; 32].into(),
            timeout: None,
            rp_id: Some("future.1password.com".into()),
            allow_credentials: Some(vec![PublicKeyCredentialDescriptor {
                ty: PublicKeyCredentialType::PublicKey,
                id: vec![1u8; 16].into(),
                transports: None,
            }]),
            user_verification: Default::default(),
            hints: None,
            attestation: Default::default(),
            attestation_formats: Default::default(),
            extensions: Default::default(),
        },
    };
    let mut c = failing_client(b);
    let a = match block_on(c.authenticate(&origin, request, DefaultClientData)) {
        Ok(_) => json!({"ok": true}),
        Err(e) => werr_json(&e),
    };
    let creation = webauthn::CredentialCreationOptions {
        public_key: webauthn::PublicKeyCredentialCreationOptions {
            rp: webauthn::PublicKeyCredentialRpEntity { id: Some("future.1password.com".into()), name: "x".into() },
            user: webauthn::PublicKeyCredentialUserEntity { id: vec![2u8; 16].into(), display_name: "w".into(), name: "w".into() },
            challenge: vec![9u8; 32].into(),
            pub_key_cred_params: vec![webauthn::PublicKeyCredentialParameters {
                ty: PublicKeyCredentialType::PublicKey,
                alg: iana::Algorithm::ES256,
            }],
            timeout: None,
            exclude_credentials: Default::default(),
            authenticator_selection: Default::default(),
            hints: None,
            attestation: Default::default(),
            attestation_formats: Default::default(),
            extensions: Default::default(),
        },
    };
    let mut c = failing_client(b);
    let r = match block_on(c.register(&origin, creation, DefaultClientData)) {
        Ok(_) => json!({"ok": true}),
        Err(e) => werr_json(&e),
    };
    json!({"authenticate": a, "register": r})
}

fn run_case(case: &Value) -> Value {
    let t = case["t"].as_str().unwrap_or("");
    match case["op"].as_str().unwrap() {
        "ser" => {
            let m = &case["m"];
            match t {
                "mc_req" => ser_as(mc_req(m)),
                "mc_resp" => ser_as(mc_resp(m)),
                "ga_req" => ser_as(ga_req(m)),
                "ga_resp" => ser_as(ga_resp(m)),
                "gi_resp" => ser_as(gi_resp(m)),
                "hmac" => ser_as(hmac_input(m)),
                k => panic!("unknown message kind {k}"),
            }
        }
        "de" => {
            let b = unhex(case["hex"].as_str().unwrap());
            match t {
                "mc_req" => de_as::<make_credential::Request>(&b),
                "mc_resp" => de_as::<make_credential::Response>(&b),
                "ga_req" => de_as::<get_assertion::Request>(&b),
                "ga_resp" => de_as::<get_assertion::Response>(&b),
                "gi_resp" => de_as::<get_info::Response>(&b),
                "hmac" => de_as::<HmacGetSecretInput>(&b),
                k => panic!("unknown message kind {k}"),
            }
        }
        "status" => status(u8_of(&case["b"])),
        "client_status" => client_status(u8_of(&case["b"])),
        other => panic!("unknown ctapmsg op {other}"),
    }
}

fn main() {
    pkharness::run_domain(run_case);
}

#[allow(dead_code)]
fn _unused(_: ctap2::Ctap2Error) {}
