//! U2F raw-message wire domain (C17 codec half, C15 U2F parser robustness):
//! `Request::try_from(&[u8])`, `AuthenticationRequest::try_from(payload, p1)`,
//! `RegisterRequest::try_from(payload)`, the response encoders and the status words.
//! Heap allocation requests made inside the parser calls are counted by a wrapping global
//! allocator (count, largest, total), so the cost statement is tied to the code as well.
use passkey_types::ctap2::Flags;
use passkey_types::u2f::{
    AuthenticationRequest, AuthenticationResponse, PublicKey, RegisterRequest, RegisterResponse,
    Request, RequestPayload, ResponseStatusWords, Version,
};
use pkharness::{get_hex, hex};
use serde_json::{json, Value};
use std::alloc::{GlobalAlloc, Layout, System};
use std::sync::atomic::{AtomicBool, AtomicUsize, Ordering::Relaxed};

struct Counting;
static ON: AtomicBool = AtomicBool::new(false);
static COUNT: AtomicUsize = AtomicUsize::new(0);
static MAX: AtomicUsize = AtomicUsize::new(0);
static TOTAL: AtomicUsize = AtomicUsize::new(0);

fn note(size: usize) {
    if ON.load(Relaxed) {
        COUNT.fetch_add(1, Relaxed);
        TOTAL.fetch_add(size, Relaxed);
        MAX.fetch_max(size, Relaxed);
    }
}

unsafe impl GlobalAlloc for Counting {
    unsafe fn alloc(&self, l: Layout) -> *mut u8 {
        note(l.size());
        System.alloc(l)
    }
    unsafe fn alloc_zeroed(&self, l: Layout) -> *mut u8 {
        note(l.size());
        System.alloc_zeroed(l)
    }
    unsafe fn realloc(&self, p: *mut u8, l: Layout, new_size: usize) -> *mut u8 {
        note(new_size);
        System.realloc(p, l, new_size)
    }
    unsafe fn dealloc(&self, p: *mut u8, l: Layout) {
        System.dealloc(p, l)
    }
}

#[global_allocator]
static GLOBAL: Counting = Counting;

/// Run `f` with allocation counting on; returns its result and (count, largest, total).
fn counted<T>(f: impl FnOnce() -> T) -> (T, Value) {
    COUNT.store(0, Relaxed);
    MAX.store(0, Relaxed);
    TOTAL.store(0, Relaxed);
    ON.store(true, Relaxed);
    // a panic inside `f` leaves ON set; `run_case` clears it first thing
    let r = f();
    ON.store(false, Relaxed);
    let a = json!({"count": COUNT.load(Relaxed), "max": MAX.load(Relaxed), "total": TOTAL.load(Relaxed)});
    (r, a)
}

fn auth_json(a: AuthenticationRequest) -> Value {
    json!({
        "parameter": u8::from(a.parameter),
        "challenge": hex(&a.challenge),
        "application": hex(&a.application),
        "key_handle": hex(&a.key_handle),
    })
}

fn reg_json(r: RegisterRequest) -> Value {
    json!({"challenge": hex(&r.challenge), "application": hex(&r.application)})
}

fn arr32(v: &[u8], what: &str) -> [u8; 32] {
    v.try_into().unwrap_or_else(|_| panic!("harness: {what} must be 32 bytes"))
}

fn run_case(case: &Value) -> Value {
    ON.store(false, Relaxed);
    match case["op"].as_str().unwrap() {
        // {"op":"parse","bytes":hex}
        "parse" => {
            let bytes = get_hex(case, "bytes");
            let (res, allocs) = counted(|| Request::try_from(bytes.as_slice()));
            match res {
                Err(sw) => json!({"err": sw.as_primitive(), "allocs": allocs}),
                Ok(req) => {
                    let data = match req.data {
                        RequestPayload::Register(r) => json!({"t": "register", "v": reg_json(r)}),
                        RequestPayload::Authenticate(a) => json!({"t": "authenticate", "v": auth_json(a)}),
                        RequestPayload::Version => json!({"t": "version"}),
                    };
                    json!({"ok": {
                        "cla": req.cla,
                        "ins": u8::from(req.ins),
                        "p1": req.p1,
                        "data_len": req.data_len as u64,
                        "data": data,
                    }, "allocs": allocs})
                }
            }
        }
        // {"op":"auth","payload":hex,"p1":u8}   the public payload parser, called directly
        "auth" => {
            let payload = get_hex(case, "payload");
            let p1 = case["p1"].as_u64().unwrap() as u8;
            let (res, allocs) = counted(|| AuthenticationRequest::try_from(payload.as_slice(), p1));
            match res {
                Err(_) => json!({"err": true, "allocs": allocs}),
                Ok(a) => json!({"ok": auth_json(a), "allocs": allocs}),
            }
        }
        // {"op":"reg","payload":hex}
        "reg" => {
            let payload = get_hex(case, "payload");
            let (res, allocs) = counted(|| RegisterRequest::try_from(payload.as_slice()));
            match res {
                Err(_) => json!({"err": true, "allocs": allocs}),
                Ok(r) => json!({"ok": reg_json(r), "allocs": allocs}),
            }
        }
        // {"op":"enc_reg","x":hex32,"y":hex32,"kh":hex,"cert":hex,"sig":hex}
        "enc_reg" => {
            let resp = RegisterResponse {
                public_key: PublicKey {
                    x: arr32(&get_hex(case, "x"), "x"),
                    y: arr32(&get_hex(case, "y"), "y"),
                },
                key_handle: get_hex(case, "kh"),
                attestation_certificate: get_hex(case, "cert"),
                signature: get_hex(case, "sig"),
            };
            json!({"bytes": hex(&resp.encode())})
        }
        // {"op":"enc_auth","flags":u8,"counter":u32,"sig":hex}
        "enc_auth" => {
            let b = case["flags"].as_u64().unwrap() as u8;
            let flags = Flags::try_from(b).unwrap_or_else(|_| panic!("harness: flags byte with undefined bits"));
            let resp = AuthenticationResponse {
                user_presence: flags,
                counter: case["counter"].as_u64().unwrap() as u32,
                signature: get_hex(case, "sig"),
            };
            json!({"bytes": hex(&resp.encode())})
        }
        // {"op":"enc_version"}
        "enc_version" => json!({"bytes": hex(&Version.encode())}),
        // {"op":"status"}  the numeric values of every status word, in declaration order
        "status" => json!({"values": [
            ResponseStatusWords::NoError.as_primitive(),
            ResponseStatusWords::ConditionsNotSatisfied.as_primitive(),
            ResponseStatusWords::WrongData.as_primitive(),
            ResponseStatusWords::WrongLength.as_primitive(),
            ResponseStatusWords::ClaNotSupported.as_primitive(),
            u16::from(ResponseStatusWords::InsNotSupported),
        ]}),
        other => panic!("unknown u2fwire op {other}"),
    }
}

fn main() {
    pkharness::run_domain(run_case);
}
