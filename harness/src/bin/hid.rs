//! CTAPHID domain (C16, C15): `Message::new` + `send`, and `ChannelHandler::handle_packet`.
use pkharness::{get_hex, hex, unhex};
use passkey_transports::hid::{ChannelHandler, Command, Message};
use serde_json::{json, Value};

fn cmd_byte(c: Command) -> u8 {
    // `encode` sets bit 7 on the discriminant
    c.encode() & 0x7f
}

fn run_case(case: &Value) -> Value {
    match case["op"].as_str().unwrap() {
        // {"op":"send","ch":u32,"cmd":u8,"payload":hex}
        "send" => {
            let ch = case["ch"].as_u64().unwrap() as u32;
            // the harness names the enum variants itself: the sender side must not depend on the receiver's byte table
            let cmd = match case["cmd"].as_u64().unwrap() as u8 {
                0x03 => Command::Msg,
                0x10 => Command::Cbor,
                0x06 => Command::Init,
                0x01 => Command::Ping,
                0x11 => Command::Cancel,
                0x3F => Command::Err,
                0x3B => Command::KeepAlive,
                0x08 => Command::Wink,
                0x04 => Command::Lock,
                _ => return json!({"badcmd": true}),
            };
            let payload = get_hex(case, "payload");
            match Message::new(ch, cmd, &payload) {
                Err(_) => json!({"ok": false}),
                Ok(m) => {
                    let mut w: Vec<u8> = Vec::new();
                    m.send(&mut w).expect("vec write");
                    json!({"ok": true, "wire": hex(&w)})
                }
            }
        }
        // {"op":"recv","packets":[hex,...]}  one fresh ChannelHandler per case
        "recv" => {
            let mut h = ChannelHandler::default();
            let mut outs = Vec::new();
            for p in case["packets"].as_array().unwrap() {
                let bytes = unhex(p.as_str().unwrap());
                match h.handle_packet(&bytes) {
                    None => outs.push(Value::Null),
                    Some(m) => outs.push(json!({
                        "ch": m.channel,
                        "cmd": cmd_byte(m.command),
                        "payload": hex(&m.payload),
                    })),
                }
            }
            json!({"outs": outs})
        }
        other => panic!("unknown hid op {other}"),
    }
}

fn main() {
    pkharness::run_domain(run_case);
}
