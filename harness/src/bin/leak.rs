//! Leak domain (C06): runs real ceremonies - CTAP2 `make_credential` / `get_assertion` / `get_info`
//! (directly and through `Ctap2Api`), WebAuthn `Client::register` / `Client::authenticate`, U2F
//! `U2fApi::register` / `U2fApi::authenticate` - against the instrumented store / user-validation
//! implementations of `instr.rs`, and reports per operation
//!   * the log of trait calls, the result and the store content afterwards, in the same form as the
//!     `ceremony` binary (so the same Coq replay checkers apply), and
//!   * `dumps`: EVERY value handed back to the caller in every rendering available - CBOR (ciborium)
//!     and JSON (serde_json) serialisations, `{:?}` and `{:#?}`, raw bytes - of every response and
//!     every error, and the `{:?}` / `{:#?}` rendering of every stored passkey (and of the store).
//! The driver (driver/c06.py) reads the secrets back from `store_after` and scans the dumps.
//! (Request builders and result summaries are copies of those in ceremony.rs.)
#![allow(clippy::all)]
use coset::iana::{self, EnumI64};
use passkey_authenticator::{extensions::HmacSecretConfig, Authenticator, CredentialIdLength};
use passkey_types::{
    ctap2::{
        self,
        extensions::{AuthenticatorPrfInputs, AuthenticatorPrfValues, HmacGetSecretInput},
        get_assertion, make_credential, Aaguid, StatusCode,
    },
    webauthn, Bytes,
};
use pkharness::instr::*;
use pkharness::{hex, unhex};
use serde_json::{json, Value};
use std::collections::HashMap;
use std::future::Future;
use std::pin::Pin;
use std::sync::{Arc, Mutex};

type Auth = Authenticator<LogStore, ScriptedUser>;

/// everything handed back, in every rendering
#[derive(Default)]
struct Dumps(Vec<Value>);
impl Dumps {
    fn bytes(&mut self, what: &str, b: &[u8]) {
        self.0.push(json!({"what": what, "hex": hex(b)}));
    }
    fn text(&mut self, what: &str, t: String) {
        self.0.push(json!({"what": what, "text": t}));
    }
    fn debug<T: std::fmt::Debug>(&mut self, what: &str, v: &T) {
        self.text(&format!("{what}/debug"), format!("{:?}", v));
        self.text(&format!("{what}/debug-pretty"), format!("{:#?}", v));
    }
    fn cbor<T: serde::Serialize>(&mut self, what: &str, v: &T) {
        let mut buf = Vec::new();
        match ciborium::ser::into_writer(v, &mut buf) {
            Ok(()) => self.bytes(&format!("{what}/cbor"), &buf),
            Err(e) => self.text(&format!("{what}/cbor-error"), format!("{:?}", e)),
        }
    }
    fn json<T: serde::Serialize>(&mut self, what: &str, v: &T) {
        match serde_json::to_string(v) {
            Ok(t) => self.text(&format!("{what}/json"), t),
            Err(e) => self.text(&format!("{what}/json-error"), format!("{:?}", e)),
        }
    }
    fn status(&mut self, what: &str, e: &StatusCode) {
        self.debug(what, e);
        self.bytes(&format!("{what}/byte"), &[u8::from(clone_status(e))]);
    }
}

fn build_auth(cfg: &Value, store: AnyStore, user: &Value, sh: SharedRef, tag: Option<u64>) -> Auth {
    let aaguid_bytes = unhex(cfg["aaguid"].as_str().unwrap_or("00000000000000000000000000000000"));
    let mut a = [0u8; 16];
    a.copy_from_slice(&aaguid_bytes);
    let ls = LogStore { inner: store, sh: sh.clone(), tag };
    let us = ScriptedUser::from_json(user, sh, tag);
    let mut auth = Authenticator::new(Aaguid(a), ls, us);
    auth.set_make_credentials_with_signature_counter(cfg["counter"].as_bool().unwrap_or(false));
    if let Some(n) = cfg["id_len"].as_u64() {
        auth.set_make_credential_id_length(CredentialIdLength::from(n as u8));
    }
    if !cfg["hmac"].is_null() {
        let mut hc = if cfg["hmac"]["without_uv"].as_bool().unwrap_or(false) {
            HmacSecretConfig::new_without_uv()
        } else {
            HmacSecretConfig::new_with_uv_only()
        };
        if cfg["hmac"]["on_mc"].as_bool().unwrap_or(false) {
            hc = hc.enable_on_make_credential();
        }
        auth = auth.hmac_secret(hc);
    }
    auth
}

fn utf8(v: &Value) -> String {
    String::from_utf8(unhex(v.as_str().unwrap())).expect("utf8")
}

fn arr32(v: &Value) -> [u8; 32] {
    let b = unhex(v.as_str().unwrap());
    let mut a = [0u8; 32];
    a.copy_from_slice(&b);
    a
}

fn prf_values(v: &Value) -> AuthenticatorPrfValues {
    AuthenticatorPrfValues {
        first: arr32(&v["first"]),
        second: if v["second"].is_null() { None } else { Some(arr32(&v["second"])) },
    }
}

fn prf_inputs(v: &Value) -> AuthenticatorPrfInputs {
    AuthenticatorPrfInputs {
        eval: if v["eval"].is_null() { None } else { Some(prf_values(&v["eval"])) },
        eval_by_credential: v["by_cred"].as_array().map(|l| {
            l.iter()
                .map(|kv| (Bytes::from(unhex(kv[0].as_str().unwrap())), prf_values(&kv[1])))
                .collect::<HashMap<_, _>>()
        }),
    }
}

fn dummy_hmac_input() -> HmacGetSecretInput {
    HmacGetSecretInput {
        key_agreement: ciborium::value::Value::Null,
        salt_enc: vec![0u8; 32].into(),
        salt_auth: vec![0u8; 16].into(),
        pin_uv_auth_protocol: None,
    }
}

fn descriptors(v: &Value) -> Option<Vec<webauthn::PublicKeyCredentialDescriptor>> {
    v.as_array().map(|l| {
        l.iter()
            .map(|id| webauthn::PublicKeyCredentialDescriptor {
                ty: webauthn::PublicKeyCredentialType::PublicKey,
                id: unhex(id.as_str().unwrap()).into(),
                transports: None,
            })
            .collect()
    })
}

fn options(v: &Value) -> make_credential::Options {
    make_credential::Options {
        rk: v["rk"].as_bool().unwrap(),
        up: v["up"].as_bool().unwrap(),
        uv: v["uv"].as_bool().unwrap(),
    }
}

fn mc_request(q: &Value) -> make_credential::Request {
    make_credential::Request {
        client_data_hash: unhex(q["cdh"].as_str().unwrap()).into(),
        rp: make_credential::PublicKeyCredentialRpEntity {
            id: utf8(&q["rp"]["id"]),
            name: if q["rp"]["name"].is_null() { None } else { Some(utf8(&q["rp"]["name"])) },
        },
        user: webauthn::PublicKeyCredentialUserEntity {
            id: unhex(q["user"]["id"].as_str().unwrap()).into(),
            display_name: utf8(&q["user"]["display"]),
            name: utf8(&q["user"]["name"]),
        },
        pub_key_cred_params: q["params"]
            .as_array()
            .unwrap()
            .iter()
            .map(|a| webauthn::PublicKeyCredentialParameters {
                ty: webauthn::PublicKeyCredentialType::PublicKey,
                alg: iana::Algorithm::from_i64(a.as_i64().unwrap()).expect("known algorithm id"),
            })
            .collect(),
        exclude_list: descriptors(&q["exclude"]),
        extensions: if q["ext"].is_null() {
            None
        } else {
            let e = &q["ext"];
            Some(make_credential::ExtensionInputs {
                hmac_secret: e["hmac_secret"].as_bool(),
                hmac_secret_mc: if e["hmac_secret_mc"].as_bool().unwrap_or(false) { Some(dummy_hmac_input()) } else { None },
                prf: if e["prf"].is_null() { None } else { Some(prf_inputs(&e["prf"])) },
            })
        },
        options: options(&q["opts"]),
        pin_auth: if q["pin_auth"].as_bool().unwrap_or(false) { Some(vec![1u8; 16].into()) } else { None },
        pin_protocol: None,
    }
}

fn ga_request(q: &Value) -> get_assertion::Request {
    get_assertion::Request {
        rp_id: utf8(&q["rp_id"]),
        client_data_hash: unhex(q["cdh"].as_str().unwrap()).into(),
        allow_list: descriptors(&q["allow"]),
        extensions: if q["ext"].is_null() {
            None
        } else {
            let e = &q["ext"];
            Some(get_assertion::ExtensionInputs {
                hmac_secret: if e["hmac_secret"].as_bool().unwrap_or(false) { Some(dummy_hmac_input()) } else { None },
                prf: if e["prf"].is_null() { None } else { Some(prf_inputs(&e["prf"])) },
            })
        },
        options: options(&q["opts"]),
        pin_auth: if q["pin_auth"].as_bool().unwrap_or(false) { Some(vec![1u8; 16].into()) } else { None },
        pin_protocol: None,
    }
}

fn prf_vals_json(v: &AuthenticatorPrfValues) -> Value {
    json!({"first": hex(&v.first), "second": v.second.as_ref().map(|s| hex(s))})
}

fn auth_data_json(ad: &ctap2::AuthenticatorData) -> Value {
    json!({
        "bytes": hex(&ad.to_vec()),
        "rp_id_hash": hex(ad.rp_id_hash()),
        "flags": ad.flags.bits(),
        "counter": ad.counter,
        "acd": ad.attested_credential_data.as_ref().map(|a| {
            let k = key_to_json(&a.key);
            let alg = match a.key.alg.as_ref() {
                Some(coset::RegisteredLabelWithPrivate::Assigned(alg)) => Some(alg.to_i64()),
                Some(coset::RegisteredLabelWithPrivate::PrivateUse(v)) => Some(*v),
                _ => None,
            };
            json!({"aaguid": hex(&a.aaguid.0), "cred_id": hex(a.credential_id()), "x": k["x"], "y": k["y"], "alg": alg,
                   "has_d": a.key.params.iter().any(|(l, _)| matches!(l, coset::Label::Int(-4)))})
        }),
        "ext": ad.extensions.is_some(),
    })
}

fn mc_result(r: Result<make_credential::Response, StatusCode>, d: &mut Dumps) -> Value {
    match &r {
        Err(e) => d.status("make_credential/error", e),
        Ok(resp) => {
            d.cbor("make_credential/response", resp);
            d.json("make_credential/response", resp);
            d.debug("make_credential/response", resp);
            d.bytes("make_credential/response/auth_data", &resp.auth_data.to_vec());
        }
    }
    match r {
        Err(e) => json!({"err": u8::from(e)}),
        Ok(resp) => json!({"ok": {
            "fmt": resp.fmt,
            "auth_data": auth_data_json(&resp.auth_data),
            "att_stmt_empty": matches!(&resp.att_stmt, ciborium::value::Value::Map(m) if m.is_empty()),
            "ep_att": resp.ep_att, "large_blob_key": resp.large_blob_key.is_some(),
            "prf": resp.unsigned_extension_outputs.and_then(|u| u.prf).map(|p| json!({
                "enabled": p.enabled, "results": p.results.as_ref().map(prf_vals_json)})),
        }}),
    }
}

fn ga_result(r: Result<get_assertion::Response, StatusCode>, d: &mut Dumps) -> Value {
    match &r {
        Err(e) => d.status("get_assertion/error", e),
        Ok(resp) => {
            d.cbor("get_assertion/response", resp);
            d.json("get_assertion/response", resp);
            d.debug("get_assertion/response", resp);
            d.bytes("get_assertion/response/auth_data", &resp.auth_data.to_vec());
        }
    }
    match r {
        Err(e) => json!({"err": u8::from(e)}),
        Ok(resp) => json!({"ok": {
            "cred_id": resp.credential.as_ref().map(|c| hex(&c.id)),
            "auth_data": auth_data_json(&resp.auth_data),
            "signature": hex(&resp.signature),
            "user_handle": resp.user.as_ref().map(|u| hex(&u.id)),
            "user_names_empty": resp.user.as_ref().map(|u| u.name.is_empty() && u.display_name.is_empty()),
            "number_of_credentials": resp.number_of_credentials, "user_selected": resp.user_selected,
            "large_blob_key": resp.large_blob_key.is_some(),
            "prf": resp.unsigned_extension_outputs.and_then(|u| u.prf).map(|p| prf_vals_json(&p.results)),
        }}),
    }
}

fn info_result(r: ctap2::get_info::Response, d: &mut Dumps) -> Value {
    d.cbor("get_info/response", &r);
    d.json("get_info/response", &r);
    d.debug("get_info/response", &r);
    json!({"ok": {
        "versions": r.versions.len(),
        "prf_ext": r.extensions.as_ref().map(|e| e.iter().any(|x| *x == ctap2::get_info::Extension::Prf)).unwrap_or(false),
        "n_ext": r.extensions.as_ref().map(|e| e.len()),
        "aaguid": hex(&r.aaguid.0),
        "rk": r.options.as_ref().map(|o| o.rk), "uv": r.options.as_ref().and_then(|o| o.uv), "up": r.options.as_ref().map(|o| o.up),
        "max_msg_size": r.max_msg_size.is_some(), "pin_protocols": r.pin_protocols.is_some(),
        "transports": r.transports.as_ref().map(|t| t.len()),
    }})
}

fn arr32h(v: &Value) -> [u8; 32] {
    arr32(v)
}

fn u2f_err(e: passkey_types::ctap2::U2FError, what: &str, d: &mut Dumps) -> Value {
    d.debug(what, &e);
    let b: u8 = e.into();
    d.bytes(&format!("{what}/byte"), &[b]);
    json!({"err": b})
}

/// One operation as a boxed future borrowing the authenticator.
fn run_op<'a>(auth: &'a mut Auth, op: &'a Value, d: &'a mut Dumps) -> Pin<Box<dyn Future<Output = Value> + 'a>> {
    let kind = op["op"].as_str().unwrap().to_string();
    Box::pin(async move {
        match kind.as_str() {
            "make_credential" => mc_result(auth.make_credential(mc_request(&op["req"])).await, d),
            "get_assertion" => ga_result(auth.get_assertion(ga_request(&op["req"])).await, d),
            "get_info" => info_result(auth.get_info().await, d),
            // through the sealed transport-facing trait, by path (never import the trait)
            "trait_make_credential" => mc_result(
                <Auth as passkey_authenticator::Ctap2Api>::make_credential(auth, mc_request(&op["req"])).await, d,
            ),
            "trait_get_assertion" => ga_result(
                <Auth as passkey_authenticator::Ctap2Api>::get_assertion(auth, ga_request(&op["req"])).await, d,
            ),
            "trait_get_info" => info_result(<Auth as passkey_authenticator::Ctap2Api>::get_info(auth).await, d),
            "u2f_register" => {
                let req = passkey_types::u2f::RegisterRequest {
                    challenge: arr32h(&op["challenge"]),
                    application: arr32h(&op["application"]),
                };
                let handle = unhex(op["handle"].as_str().unwrap());
                match <Auth as passkey_authenticator::U2fApi>::register(auth, req, &handle).await {
                    Err(e) => u2f_err(e, "u2f_register/error", d),
                    Ok(resp) => {
                        let fields = json!({
                            "x": hex(&resp.public_key.x), "y": hex(&resp.public_key.y),
                            "key_handle": hex(&resp.key_handle), "cert": hex(&resp.attestation_certificate),
                            "signature": hex(&resp.signature),
                        });
                        d.bytes("u2f_register/response/public_key", &resp.public_key.encode().collect::<Vec<u8>>());
                        d.bytes("u2f_register/response/key_handle", &resp.key_handle);
                        d.bytes("u2f_register/response/attestation_certificate", &resp.attestation_certificate);
                        d.bytes("u2f_register/response/signature", &resp.signature);
                        let raw = resp.encode();
                        d.bytes("u2f_register/response/raw", &raw);
                        let mut f = fields;
                        f["raw"] = json!(hex(&raw));
                        json!({"ok": f})
                    }
                }
            }
            "u2f_authenticate" => {
                let req = passkey_types::u2f::AuthenticationRequest {
                    parameter: passkey_types::u2f::AuthenticationParameter::EnforceUserPresence,
                    challenge: arr32h(&op["challenge"]),
                    application: arr32h(&op["application"]),
                    key_handle: unhex(op["key_handle"].as_str().unwrap()),
                };
                let counter = op["counter"].as_u64().unwrap() as u32;
                let flags = ctap2::Flags::from_bits(op["presence"].as_u64().unwrap() as u8).expect("valid flags byte");
                match <Auth as passkey_authenticator::U2fApi>::authenticate(auth, req, counter, flags).await {
                    Err(e) => u2f_err(e, "u2f_authenticate/error", d),
                    Ok(resp) => {
                        let mut f = json!({
                            "presence": u8::from(resp.user_presence), "counter": resp.counter,
                            "signature": hex(&resp.signature),
                        });
                        d.bytes("u2f_authenticate/response/signature", &resp.signature);
                        let raw = resp.encode();
                        d.bytes("u2f_authenticate/response/raw", &raw);
                        f["raw"] = json!(hex(&raw));
                        json!({"ok": f})
                    }
                }
            }
            k => panic!("unknown op {k}"),
        }
    })
}

/// the `{:?}` / `{:#?}` rendering of every stored passkey and of the store itself
fn stored_debug(store: &AnyStore) -> (Vec<Value>, Vec<Value>) {
    fn one(p: &passkey_types::Passkey) -> Value {
        json!({"p": passkey_to_json(p), "dbg": format!("{:?}", p), "dbg_pretty": format!("{:#?}", p)})
    }
    let mut dumps = Dumps::default();
    let items: Vec<Value> = match store {
        AnyStore::Ref(r) => r.items.iter().map(one).collect(),
        AnyStore::Memory(m) => {
            dumps.debug("store", m);
            m.values().map(one).collect()
        }
        AnyStore::Opt(o) => {
            dumps.debug("store", o);
            o.iter().map(one).collect()
        }
        AnyStore::ArcMutexMemory(a) => a.try_lock().expect("locked").values().map(one).collect(),
        AnyStore::ArcRwLockMemory(a) => a.try_read().expect("locked").values().map(one).collect(),
        AnyStore::MutexMemory(a) => a.try_lock().expect("locked").values().map(one).collect(),
        AnyStore::RwLockMemory(a) => a.try_read().expect("locked").values().map(one).collect(),
        AnyStore::ArcMutexOpt(a) => a.try_lock().expect("locked").iter().map(one).collect(),
        AnyStore::ArcRwLockRef(a) => a.try_read().expect("locked").items.iter().map(one).collect(),
        AnyStore::ArcMutexRef(a) => a.try_lock().expect("locked").items.iter().map(one).collect(),
    };
    (items, dumps.0)
}

// ------------------------------------------------------------------------------------------------
// WebAuthn client level

use passkey_client::{Client, DefaultClientData, DefaultClientDataWithCustomHash, DefaultClientDataWithExtra, Origin, RpIdVerifier, UnverifiedAssetLink, WebauthnError};

fn werr_json(e: &WebauthnError) -> Value {
    match e {
        WebauthnError::AuthenticatorError(b) => json!({"kind": "AuthenticatorError", "code": b}),
        other => json!({"kind": format!("{:?}", other)}),
    }
}

fn wprf_values(v: &Value) -> webauthn::AuthenticationExtensionsPrfValues {
    webauthn::AuthenticationExtensionsPrfValues {
        first: unhex(v["first"].as_str().unwrap()).into(),
        second: if v["second"].is_null() { None } else { Some(unhex(v["second"].as_str().unwrap()).into()) },
    }
}

fn wprf_inputs(v: &Value) -> webauthn::AuthenticationExtensionsPrfInputs {
    webauthn::AuthenticationExtensionsPrfInputs {
        eval: if v["eval"].is_null() { None } else { Some(wprf_values(&v["eval"])) },
        eval_by_credential: v["by_cred"].as_array().map(|l| {
            l.iter().map(|kv| (utf8(&kv[0]), wprf_values(&kv[1]))).collect::<HashMap<_, _>>()
        }),
    }
}

fn wext(v: &Value) -> Option<webauthn::AuthenticationExtensionsClientInputs> {
    if v.is_null() {
        return None;
    }
    Some(webauthn::AuthenticationExtensionsClientInputs {
        cred_props: v["cred_props"].as_bool(),
        prf: if v["prf"].is_null() { None } else { Some(wprf_inputs(&v["prf"])) },
        prf_already_hashed: if v["prf_hashed"].is_null() { None } else { Some(wprf_inputs(&v["prf_hashed"])) },
    })
}

fn uv_req(v: &Value) -> webauthn::UserVerificationRequirement {
    match v.as_str().unwrap_or("preferred") {
        "required" => webauthn::UserVerificationRequirement::Required,
        "discouraged" => webauthn::UserVerificationRequirement::Discouraged,
        _ => webauthn::UserVerificationRequirement::Preferred,
    }
}

fn creation_options(q: &Value) -> webauthn::CredentialCreationOptions {
    webauthn::CredentialCreationOptions {
        public_key: webauthn::PublicKeyCredentialCreationOptions {
            rp: webauthn::PublicKeyCredentialRpEntity {
                id: if q["rp_id"].is_null() { None } else { Some(utf8(&q["rp_id"])) },
                name: utf8(&q["rp_name"]),
            },
            user: webauthn::PublicKeyCredentialUserEntity {
                id: unhex(q["user"]["id"].as_str().unwrap()).into(),
                display_name: utf8(&q["user"]["display"]),
                name: utf8(&q["user"]["name"]),
            },
            challenge: unhex(q["challenge"].as_str().unwrap()).into(),
            pub_key_cred_params: q["params"].as_array().unwrap().iter().map(|a| webauthn::PublicKeyCredentialParameters {
                ty: webauthn::PublicKeyCredentialType::PublicKey,
                alg: iana::Algorithm::from_i64(a.as_i64().unwrap()).expect("known algorithm id"),
            }).collect(),
            timeout: None,
            exclude_credentials: descriptors(&q["exclude"]),
            authenticator_selection: if q["selection"].is_null() { None } else {
                let s = &q["selection"];
                Some(webauthn::AuthenticatorSelectionCriteria {
                    authenticator_attachment: None,
                    resident_key: match s["rk"].as_str() {
                        Some("required") => Some(webauthn::ResidentKeyRequirement::Required),
                        Some("preferred") => Some(webauthn::ResidentKeyRequirement::Preferred),
                        Some("discouraged") => Some(webauthn::ResidentKeyRequirement::Discouraged),
                        _ => None,
                    },
                    require_resident_key: s["require_rk"].as_bool().unwrap_or(false),
                    user_verification: uv_req(&s["uv"]),
                })
            },
            hints: None,
            attestation: Default::default(),
            attestation_formats: None,
            extensions: wext(&q["ext"]),
        },
    }
}

fn request_options(q: &Value) -> webauthn::CredentialRequestOptions {
    webauthn::CredentialRequestOptions {
        public_key: webauthn::PublicKeyCredentialRequestOptions {
            challenge: unhex(q["challenge"].as_str().unwrap()).into(),
            timeout: None,
            rp_id: if q["rp_id"].is_null() { None } else { Some(utf8(&q["rp_id"])) },
            allow_credentials: descriptors(&q["allow"]),
            user_verification: uv_req(&q["uv"]),
            hints: None,
            attestation: Default::default(),
            attestation_formats: None,
            extensions: wext(&q["ext"]),
        },
    }
}

fn wprf_out(p: &webauthn::AuthenticationExtensionsPrfOutputs) -> Value {
    json!({"enabled": p.enabled,
           "results": p.results.as_ref().map(|r| json!({"first": hex(&r.first), "second": r.second.as_ref().map(|b| hex(b))}))})
}

fn make_origin(op: &Value) -> Result<Origin<'static>, String> {
    if !op["android"].is_null() {
        let a = &op["android"];
        let url = url::Url::parse("https://example.com/.well-known/assetlinks.json").unwrap();
        UnverifiedAssetLink::new(
            "com.example.app".to_string(),
            a["fingerprint"].as_str().unwrap(),
            utf8(&a["host"]),
            url,
        )
        .map(Origin::Android)
        .map_err(|e| format!("{:?}", e))
    } else {
        url::Url::parse(op["origin"].as_str().unwrap()).map(Origin::from).map_err(|e| format!("{:?}", e))
    }
}

type Cl = Client<LogStore, ScriptedUser, public_suffix::PublicSuffixList>;

async fn client_op(client: &mut Cl, op: &Value, sh: &SharedRef, d: &mut Dumps) -> Value {
    let origin = match make_origin(op) {
        Ok(o) => o,
        Err(e) => return json!({"origin_error": e}),
    };
    let allow_localhost = op["allow_localhost"].as_bool().unwrap_or(false);
    let verifier = RpIdVerifier::new(public_suffix::DEFAULT_PROVIDER).allows_insecure_localhost(allow_localhost);
    let rp_opt = if op["req"]["rp_id"].is_null() { None } else { Some(utf8(&op["req"]["rp_id"])) };
    let domain = match verifier.assert_domain(&origin, rp_opt.as_deref()) {
        Ok(r) => json!({"ok": hex(r.as_bytes())}),
        Err(e) => {
            d.debug("assert_domain/error", &e);
            d.json("assert_domain/error", &e);
            json!({"err": werr_json(&e)})
        }
    };
    let origin_str = origin.to_string();
    let cd = &op["cd"];
    let mode = cd["mode"].as_str().unwrap_or("default").to_string();
    let result = if op["op"] == "register" {
        let req = creation_options(&op["req"]);
        let r = match mode.as_str() {
            "extra" => client.register(origin, req, DefaultClientDataWithExtra(cd["extra"].clone())).await,
            "hash" => client.register(origin, req, DefaultClientDataWithCustomHash(unhex(cd["hash"].as_str().unwrap()))).await,
            _ => client.register(origin, req, DefaultClientData).await,
        };
        match &r {
            Err(e) => {
                d.debug("register/error", e);
                d.json("register/error", e);
            }
            Ok(c) => {
                d.json("register/credential", c);
                d.cbor("register/credential", c);
                d.debug("register/credential", c);
                d.bytes("register/credential/attestation_object", &c.response.attestation_object);
                d.bytes("register/credential/authenticator_data", &c.response.authenticator_data);
                d.bytes("register/credential/client_data_json", &c.response.client_data_json);
                if let Some(k) = c.response.public_key.as_ref() {
                    d.bytes("register/credential/public_key", k);
                }
            }
        }
        match r {
            Err(e) => json!({"err": werr_json(&e)}),
            Ok(c) => json!({"ok": {
                "id": hex(c.id.as_bytes()), "raw_id": hex(&c.raw_id),
                "client_data_json": hex(&c.response.client_data_json),
                "auth_data": hex(&c.response.authenticator_data),
                "public_key": c.response.public_key.as_ref().map(|b| hex(b)),
                "alg": c.response.public_key_algorithm,
                "att_obj": hex(&c.response.attestation_object),
                "transports": c.response.transports.as_ref().map(|t| t.len()),
                "cred_props": c.client_extension_results.cred_props.as_ref().map(|p| json!({"rk": p.discoverable})),
                "prf": c.client_extension_results.prf.as_ref().map(wprf_out),
            }}),
        }
    } else {
        let req = request_options(&op["req"]);
        let r = match mode.as_str() {
            "extra" => client.authenticate(origin, req, DefaultClientDataWithExtra(cd["extra"].clone())).await,
            "hash" => client.authenticate(origin, req, DefaultClientDataWithCustomHash(unhex(cd["hash"].as_str().unwrap()))).await,
            _ => client.authenticate(origin, req, DefaultClientData).await,
        };
        match &r {
            Err(e) => {
                d.debug("authenticate/error", e);
                d.json("authenticate/error", e);
            }
            Ok(c) => {
                d.json("authenticate/credential", c);
                d.cbor("authenticate/credential", c);
                d.debug("authenticate/credential", c);
                d.bytes("authenticate/credential/authenticator_data", &c.response.authenticator_data);
                d.bytes("authenticate/credential/client_data_json", &c.response.client_data_json);
                d.bytes("authenticate/credential/signature", &c.response.signature);
            }
        }
        match r {
            Err(e) => json!({"err": werr_json(&e)}),
            Ok(c) => json!({"ok": {
                "id": hex(c.id.as_bytes()), "raw_id": hex(&c.raw_id),
                "client_data_json": hex(&c.response.client_data_json),
                "auth_data": hex(&c.response.authenticator_data),
                "signature": hex(&c.response.signature),
                "user_handle": c.response.user_handle.as_ref().map(|b| hex(b)),
                "prf": c.client_extension_results.prf.as_ref().map(wprf_out),
                "cred_props": c.client_extension_results.cred_props.is_some(),
            }}),
        }
    };
    let _ = sh;
    json!({"domain": domain, "origin_str": hex(origin_str.as_bytes()), "result": result})
}

/// sequential WebAuthn-level operations through `Client`
fn client_mode(case: &Value) -> Value {
    let sh: SharedRef = Arc::new(Mutex::new(Shared::default()));
    {
        let mut s = sh.lock().unwrap();
        if let Some(f) = case["faults"].as_array() {
            for x in f {
                s.faults.insert(x["at"].as_u64().unwrap() as usize, x["code"].as_u64().unwrap() as u8);
            }
        }
    }
    let store = AnyStore::from_json(&case["store"]);
    let auth = build_auth(&case["config"], store, &case["user"], sh.clone(), None);
    let mut outs = Vec::new();
    // `allows_insecure_localhost` is a property of the client: one client per distinct setting
    let mut client: Cl = Client::new(auth);
    let mut current = false;
    for op in case["ops"].as_array().unwrap() {
        let want = op["allow_localhost"].as_bool().unwrap_or(false);
        if want != current {
            client = client.allows_insecure_localhost(want);
            current = want;
        }
        let mut d = Dumps::default();
        let v = block_on(client_op(&mut client, op, &sh, &mut d));
        let mut o = v;
        o["log"] = Value::Array(take_log(&sh));
        o["store_after"] = client.authenticator().store().inner.snapshot();
        let (stored, store_dumps) = stored_debug(&client.authenticator().store().inner);
        d.0.extend(store_dumps);
        o["dumps"] = Value::Array(d.0);
        o["stored"] = Value::Array(stored);
        outs.push(o);
    }
    json!({"ops": outs})
}

fn take_log(sh: &SharedRef) -> Vec<Value> {
    std::mem::take(&mut sh.lock().unwrap().log)
}

fn sequential(case: &Value) -> Value {
    let sh: SharedRef = Arc::new(Mutex::new(Shared::default()));
    {
        let mut s = sh.lock().unwrap();
        if let Some(f) = case["faults"].as_array() {
            for x in f {
                s.faults.insert(x["at"].as_u64().unwrap() as usize, x["code"].as_u64().unwrap() as u8);
            }
        }
        s.yield_before_calls = case["yield"].as_bool().unwrap_or(false);
    }
    let store = AnyStore::from_json(&case["store"]);
    let mut auth = build_auth(&case["config"], store, &case["user"], sh.clone(), None);
    let mut outs = Vec::new();
    for op in case["ops"].as_array().unwrap() {
        let mut d = Dumps::default();
        let result = block_on(run_op(&mut auth, op, &mut d));
        let (stored, store_dumps) = stored_debug(&auth.store().inner);
        d.0.extend(store_dumps);
        outs.push(json!({
            "log": take_log(&sh),
            "result": result,
            "store_after": auth.store().inner.snapshot(),
            "store_calls": sh.lock().unwrap().store_calls,
            "dumps": d.0,
            "stored": stored,
        }));
    }
    json!({"ops": outs})
}

fn run_case(case: &Value) -> Value {
    match case["mode"].as_str().unwrap_or("sequential") {
        "sequential" => sequential(case),
        "client" => client_mode(case),
        m => panic!("unknown mode {m}"),
    }
}

fn main() {
    pkharness::run_domain(run_case);
}
