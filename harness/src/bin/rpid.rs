//! RP ID domain (C01): `RpIdVerifier::assert_domain` / `is_valid_rp_id` on web and Android origins with the
//! default provider and three harness providers, and `Client::register` end to end on the same pair
//! (memory store, always-consenting user) to see which RP ID - if any - reaches the store.
use passkey_authenticator::{Authenticator, MemoryStore, UserCheck, UserValidationMethod};
use passkey_client::{Client, DefaultClientData, Origin, RpIdVerifier, UnverifiedAssetLink, WebauthnError};
use passkey_types::{ctap2::{Aaguid, Ctap2Error}, webauthn, Passkey};
use pkharness::{guarded, hex};
use public_suffix::{EffectiveTLDProvider, Error, DEFAULT_PROVIDER};
use serde_json::{json, Value};
use url::Url;

struct AlwaysErr;
impl EffectiveTLDProvider for AlwaysErr {
    fn effective_tld_plus_one<'a>(&self, _d: &'a str) -> Result<&'a str, Error> {
        Err(Error::CannotDeriveETldPlus1)
    }
}
struct AlwaysOk;
impl EffectiveTLDProvider for AlwaysOk {
    fn effective_tld_plus_one<'a>(&self, d: &'a str) -> Result<&'a str, Error> {
        Ok(d)
    }
}
/// The small custom list (its Coq twin is RpIdCheck.custom_ok): suffixes tried in this order.
struct Custom;
const CUSTOM_SUFFIXES: [&str; 3] = ["co.test", "test", "corp.internal"];
impl EffectiveTLDProvider for Custom {
    fn effective_tld_plus_one<'a>(&self, d: &'a str) -> Result<&'a str, Error> {
        if d.split('.').any(|l| l.is_empty()) {
            return Err(Error::EmptyLabel);
        }
        for suf in CUSTOM_SUFFIXES {
            if let Some(p) = d.strip_suffix(suf) {
                if p.is_empty() {
                    return Err(Error::CannotDeriveETldPlus1);
                }
                if let Some(p) = p.strip_suffix('.') {
                    let start = p.rfind('.').map(|i| i + 1).unwrap_or(0);
                    return Ok(&d[start..]);
                }
            }
        }
        Err(Error::CannotDeriveETldPlus1)
    }
}

struct Uv;
#[async_trait::async_trait]
impl UserValidationMethod for Uv {
    type PasskeyItem = Passkey;
    async fn check_user<'a>(
        &self,
        _credential: Option<&'a Passkey>,
        _presence: bool,
        _verification: bool,
    ) -> Result<UserCheck, Ctap2Error> {
        Ok(UserCheck { presence: true, verification: true })
    }
    fn is_presence_enabled(&self) -> bool {
        true
    }
    fn is_verification_enabled(&self) -> Option<bool> {
        Some(true)
    }
}

fn err_code(e: &WebauthnError) -> u8 {
    match e {
        WebauthnError::OriginMissingDomain => 0,
        WebauthnError::OriginRpMissmatch => 1,
        WebauthnError::UnprotectedOrigin => 2,
        WebauthnError::InsecureLocalhostNotAllowed => 3,
        WebauthnError::InvalidRpId => 4,
        _ => 99,
    }
}

const FINGERPRINT: &str = "B3:5B:68:D5:CE:84:50:55:7C:6A:55:FD:64:B5:1F:EA:C1:10:CB:36:D6:A3:52:1C:59:48:DB:3A:38:0A:34:A9";

fn make_origin(case: &Value) -> Result<Origin<'static>, Value> {
    match case["kind"].as_str().unwrap() {
        "web" => match Url::parse(case["url"].as_str().unwrap()) {
            Ok(u) => Ok(Origin::from(u)),
            Err(e) => Err(json!({"parse": false, "why": e.to_string()})),
        },
        "android" => {
            let host = case["host"].as_str().unwrap().to_string();
            let link = Url::parse("https://assetlinks.example/.well-known/assetlinks.json").unwrap();
            match UnverifiedAssetLink::new("com.example.app", FINGERPRINT, host, link) {
                Ok(l) => Ok(Origin::Android(l)),
                Err(e) => Err(json!({"parse": false, "why": format!("{e:?}")})),
            }
        }
        other => panic!("unknown origin kind {other}"),
    }
}

fn run_with<P: EffectiveTLDProvider + Sync + 'static, F: Fn() -> P>(mk: F, case: &Value) -> Value {
    let allow = case["allow"].as_bool().unwrap();
    let rp: Option<String> = case["rp"].as_str().map(|s| s.to_string());
    let origin = match make_origin(case) {
        Ok(o) => o,
        Err(v) => return v,
    };
    // what the model gets as input: scheme()/domain() of the parsed URL, or the Android host
    let (scheme, host): (Option<String>, Option<String>) = match &origin {
        Origin::Web(u) => (Some(u.scheme().to_string()), u.domain().map(|d| d.to_string())),
        Origin::Android(l) => (None, Some(l.host().to_string())),
    };
    let eff: Option<String> = rp.clone().or(host.clone());
    let puny = eff.as_ref().map(|e| idna::domain_to_unicode(e).1.is_ok());
    // the canonical ASCII form the library asks the provider about (None: idna refuses the name)
    let ascii: Option<String> = eff.as_ref().and_then(|e| idna::domain_to_ascii(e).ok());

    let verifier = RpIdVerifier::new(mk()).allows_insecure_localhost(allow);
    // optional history: other (origin, RP ID) pairs judged by the SAME verifier first - a verdict must not depend on them
    if let Some(before) = case["before"].as_array() {
        for b in before {
            if let Ok(o) = make_origin(b) {
                let r: Option<String> = b["rp"].as_str().map(|s| s.to_string());
                let v = &verifier;
                let _ = guarded(std::panic::AssertUnwindSafe(move || json!({"r": v.assert_domain(&o, r.as_deref()).is_ok()})));
            }
        }
    }
    let res = {
        let v = &verifier;
        let o = &origin;
        let r = rp.as_deref();
        guarded(std::panic::AssertUnwindSafe(move || match v.assert_domain(o, r) {
            Ok(x) => json!({"ok": hex(x.as_bytes())}),
            Err(e) => json!({"err": err_code(&e)}),
        }))
    };
    let valid = match &eff {
        Some(e) => {
            let v = &verifier;
            guarded(std::panic::AssertUnwindSafe(move || json!({"v": v.is_valid_rp_id(e)})))
        }
        None => Value::Null,
    };

    let e2e = if case["e2e"].as_bool().unwrap_or(false) {
        let store: MemoryStore = Default::default();
        let auth = Authenticator::new(Aaguid::new_empty(), store, Uv);
        let mut client = Client::new_with_custom_tld_provider(auth, mk()).allows_insecure_localhost(allow);
        let request = webauthn::CredentialCreationOptions {
            public_key: webauthn::PublicKeyCredentialCreationOptions {
                rp: webauthn::PublicKeyCredentialRpEntity { id: rp.clone(), name: "rp".into() },
                user: webauthn::PublicKeyCredentialUserEntity {
                    id: vec![2u8; 16].into(),
                    display_name: "wendy".into(),
                    name: "wendy".into(),
                },
                challenge: vec![1u8; 32].into(),
                pub_key_cred_params: vec![webauthn::PublicKeyCredentialParameters {
                    ty: webauthn::PublicKeyCredentialType::PublicKey,
                    alg: coset::iana::Algorithm::ES256,
                }],
                timeout: None,
                exclude_credentials: Default::default(),
                authenticator_selection: Default::default(),
                hints: None,
                attestation: Default::default(),
                attestation_formats: Default::default(),
                extensions: Default::default(),
            },
        };
        let origin2 = make_origin(case).ok().unwrap();
        let rt = tokio::runtime::Builder::new_current_thread().build().unwrap();
        let out = rt.block_on(client.register(origin2, request, DefaultClientData));
        let stored: Vec<String> = client.authenticator().store().values().map(|p| hex(p.rp_id.as_bytes())).collect();
        match out {
            Ok(_) => json!({"ok": true, "stored": stored}),
            Err(e) => json!({"ok": false, "stored": stored, "err": format!("{e:?}")}),
        }
    } else {
        Value::Null
    };

    json!({
        "parse": true,
        "scheme": scheme, "domain": host.map(|h| hex(h.as_bytes())),
        "eff": eff.map(|e| hex(e.as_bytes())), "puny": puny,
        "ascii": ascii.map(|a| hex(a.as_bytes())),
        "res": res, "valid": valid, "e2e": e2e,
    })
}

fn run_case(case: &Value) -> Value {
    match case["prov"].as_str().unwrap_or("default") {
        "default" => run_with(|| DEFAULT_PROVIDER, case),
        "err" => run_with(|| AlwaysErr, case),
        "ok" => run_with(|| AlwaysOk, case),
        "custom" => run_with(|| Custom, case),
        other => panic!("unknown provider {other}"),
    }
}

fn main() {
    pkharness::run_domain(run_case);
}
