//! Authenticator-data domain (C12): `AuthenticatorData::{new, set_flags, set_attested_credential_data,
//! set_make_credential_extensions, set_assertion_extensions, to_vec, from_slice}`,
//! `AttestedCredentialData::new`, and (for the COSE-key part of the model) `CoseKey::from_cbor_value`.
use ciborium::value::Value as Cbor;
use coset::{iana, iana::EnumI64, AsCborValue, CborSerializable, CoseKey, CoseKeyBuilder};
use passkey_types::{
    ctap2::{
        get_assertion, make_credential, Aaguid, AttestedCredentialData, AuthenticatorData, Flags,
    },
    Bytes,
};
use pkharness::{get_hex, hex, unhex};
use serde_json::{json, Value};

fn cbor_bytes(v: &Cbor) -> Vec<u8> {
    let mut out = Vec::new();
    ciborium::ser::into_writer(v, &mut out).expect("cbor to vec");
    out
}

fn has_float(v: &Cbor) -> bool {
    match v {
        Cbor::Float(_) => true,
        Cbor::Array(a) => a.iter().any(has_float),
        Cbor::Map(m) => m.iter().any(|(k, x)| has_float(k) || has_float(x)),
        Cbor::Tag(_, x) => has_float(x),
        _ => false,
    }
}

fn opt_hex(v: &Value) -> Option<Vec<u8>> {
    v.as_str().map(unhex)
}

/// {"crv": i64, "x": hex, "y": hex, "alg": null | i64}
fn build_key(k: &Value) -> CoseKey {
    let crv = iana::EllipticCurve::from_i64(k["crv"].as_i64().unwrap()).expect("curve");
    let mut b = CoseKeyBuilder::new_ec2_pub_key(crv, get_hex(k, "x"), get_hex(k, "y"));
    if let Some(a) = k["alg"].as_i64() {
        b = b.algorithm(iana::Algorithm::from_i64(a).expect("algorithm"));
    }
    b.build()
}

fn decoded(input: &[u8]) -> Value {
    match AuthenticatorData::from_slice(input) {
        Err(_) => json!({"ok": false}),
        Ok(ad) => {
            let re = ad.to_vec();
            let acd = match &ad.attested_credential_data {
                None => Value::Null,
                Some(a) => json!({
                    "aaguid": hex(&a.aaguid.0),
                    "id": hex(a.credential_id()),
                    "key": hex(&a.key.clone().to_vec().expect("key to_vec")),
                }),
            };
            let (ext, ext_float) = match &ad.extensions {
                None => (Value::Null, false),
                Some(e) => (Value::String(hex(&cbor_bytes(e))), has_float(e)),
            };
            // ciborium re-encodes floats at the shortest exact width: byte comparison is skipped for them
            let key_float = match &ad.attested_credential_data {
                None => false,
                Some(a) => has_float(&a.key.clone().to_cbor_value().expect("key to value")),
            };
            let ext_float = ext_float || key_float;
            let same = re == input;
            // to_vec() of the result is a strict prefix of the input (trailing bytes were ignored)
            let re_prefix = if !same && re.len() < input.len() && input[..re.len()] == re[..] {
                Some(re.len())
            } else {
                None
            };
            json!({
                "ok": true,
                "hash": hex(ad.rp_id_hash()),
                "flags": ad.flags.bits(),
                "counter": ad.counter,
                "acd": acd,
                "ext": ext,
                "ext_float": ext_float,
                "same": same,
                "re_prefix": re_prefix,
            })
        }
    }
}

fn run_case(case: &Value) -> Value {
    match case["op"].as_str().unwrap() {
        // {"op":"encode","rp":str,"counter":null|u32,"steps":[step,...]}
        // step = {"flags":bits} | {"acd":{"aaguid":hex,"id":hex,"key":{..}}}
        //      | {"mc":null|{"hmac_secret":null|bool,"hmac_secret_mc":null|hex}}
        //      | {"ga":null|{"hmac_secret":null|hex}} | {"raw":null|hex} | {"acd_raw":{..}}   (assignments to the pub fields)
        "encode" => {
            let counter = case["counter"].as_u64().map(|c| u32::try_from(c).expect("u32 counter"));
            let mut ad = AuthenticatorData::new(case["rp"].as_str().unwrap(), counter);
            for step in case["steps"].as_array().unwrap() {
                let (name, arg) = step.as_object().unwrap().iter().next().unwrap();
                match name.as_str() {
                    "flags" => {
                        let f = Flags::from_bits(arg.as_u64().unwrap() as u8).expect("flag bits");
                        ad = ad.set_flags(f);
                    }
                    "acd" => {
                        let aaguid: [u8; 16] = get_hex(arg, "aaguid").try_into().expect("aaguid len");
                        match AttestedCredentialData::new(
                            Aaguid(aaguid),
                            get_hex(arg, "id"),
                            build_key(&arg["key"]),
                        ) {
                            Ok(a) => ad = ad.set_attested_credential_data(a),
                            Err(_) => return json!({"acd_err": true}),
                        }
                    }
                    "acd_raw" => {
                        // assignment to the pub field: no flag is touched
                        let aaguid: [u8; 16] = get_hex(arg, "aaguid").try_into().expect("aaguid len");
                        match AttestedCredentialData::new(
                            Aaguid(aaguid),
                            get_hex(arg, "id"),
                            build_key(&arg["key"]),
                        ) {
                            Ok(a) => ad.attested_credential_data = Some(a),
                            Err(_) => return json!({"acd_err": true}),
                        }
                    }
                    "mc" => {
                        let e = if arg.is_null() {
                            None
                        } else {
                            Some(make_credential::SignedExtensionOutputs {
                                hmac_secret: arg["hmac_secret"].as_bool(),
                                hmac_secret_mc: opt_hex(&arg["hmac_secret_mc"]).map(Bytes::from),
                            })
                        };
                        match ad.set_make_credential_extensions(e) {
                            Ok(a) => ad = a,
                            Err(_) => return json!({"ext_err": true}),
                        }
                    }
                    "ga" => {
                        let e = if arg.is_null() {
                            None
                        } else {
                            Some(get_assertion::SignedExtensionOutputs {
                                hmac_secret: opt_hex(&arg["hmac_secret"]).map(Bytes::from),
                            })
                        };
                        match ad.set_assertion_extensions(e) {
                            Ok(a) => ad = a,
                            Err(_) => return json!({"ext_err": true}),
                        }
                    }
                    "raw" => {
                        ad.extensions = opt_hex(arg).map(|b| {
                            ciborium::de::from_reader::<Cbor, _>(b.as_slice()).expect("raw cbor")
                        });
                    }
                    other => panic!("unknown step {other}"),
                }
            }
            json!({
                "bytes": hex(&ad.to_vec()),
                "flags": ad.flags.bits(),
                "hash": hex(ad.rp_id_hash()),
                "ext": ad.extensions.as_ref().map(|e| hex(&cbor_bytes(e))),
            })
        }
        // {"op":"decode","input":hex}
        "decode" => decoded(&get_hex(case, "input")),
        // {"op":"cuts","input":hex}: from_slice on every prefix, lengths 0..=len
        "cuts" => {
            let input = get_hex(case, "input");
            let outs: Vec<Value> = (0..=input.len())
                .map(|n| pkharness::guarded(|| decoded(&input[..n])))
                .collect();
            json!({"outs": outs})
        }
        // {"op":"flips","input":hex,"flips":[[pos,byte],...]}
        "flips" => {
            let input = get_hex(case, "input");
            let outs: Vec<Value> = case["flips"]
                .as_array()
                .unwrap()
                .iter()
                .map(|f| {
                    let mut v = input.clone();
                    v[f[0].as_u64().unwrap() as usize] = f[1].as_u64().unwrap() as u8;
                    pkharness::guarded(move || decoded(&v))
                })
                .collect();
            json!({"outs": outs})
        }
        // {"op":"sweep","input":hex,"pos":usize}: byte `pos` set to every value 0..=255
        "sweep" => {
            let input = get_hex(case, "input");
            let pos = case["pos"].as_u64().unwrap() as usize;
            let outs: Vec<Value> = (0..=255u8)
                .map(|x| {
                    let mut v = input.clone();
                    v[pos] = x;
                    pkharness::guarded(move || decoded(&v))
                })
                .collect();
            json!({"outs": outs})
        }
        // {"op":"acd_new","len":usize}
        "acd_new" => {
            let len = case["len"].as_u64().unwrap() as usize;
            let key = build_key(&json!({"crv": 1, "x": "01", "y": "02", "alg": -7}));
            let r = AttestedCredentialData::new(Aaguid::new_empty(), vec![0xab; len], key);
            json!({"ok": r.is_ok()})
        }
        // {"op":"cose","input":hex}: one CBOR item -> CoseKey::from_cbor_value -> to_vec
        "cose" => {
            let b = get_hex(case, "input");
            let v: Cbor = match ciborium::de::from_reader(b.as_slice()) {
                Ok(v) => v,
                Err(_) => return json!({"cbor": false}),
            };
            match CoseKey::from_cbor_value(v) {
                Err(_) => json!({"ok": false}),
                Ok(k) => match k.to_vec() {
                    Ok(out) => json!({"ok": true, "re": hex(&out)}),
                    Err(_) => json!({"ok": true, "re": null}),
                },
            }
        }
        other => panic!("unknown authdata op {other}"),
    }
}

fn main() {
    pkharness::run_domain(run_case);
}
