//! Shared library layers: the third-party crates that the Coq models `Lib/Cbor.v`, `Lib/Base64.v`,
//! `Lib/Sha256.v`, `Lib/Hmac.v` specify, run on the same inputs as the models.
//!
//! JSON form of a `ciborium::Value` (`T`):
//!   {"i":"<decimal>"} | {"b":hex} | {"t":hex of the UTF-8 bytes} | {"a":[T..]} | {"m":[[T,T]..]}
//!   | {"g":["<tag decimal>",T]} | {"o":bool} | {"n":0} | {"f":"<f64 bits, decimal>"}
use ciborium::value::{Integer, Value as C};
use hmac::{Hmac, Mac};
use passkey_types::{encoding, Bytes};
use pkharness::{get_hex, hex, unhex};
use serde_json::{json, Value};
use sha2::{Digest, Sha256};

fn to_json(v: &C) -> Value {
    match v {
        C::Integer(i) => json!({"i": i128::from(*i).to_string()}),
        C::Bytes(b) => json!({"b": hex(b)}),
        C::Text(s) => json!({"t": hex(s.as_bytes())}),
        C::Array(l) => json!({"a": l.iter().map(to_json).collect::<Vec<_>>()}),
        C::Map(l) => json!({"m": l.iter().map(|(k, x)| json!([to_json(k), to_json(x)])).collect::<Vec<_>>()}),
        C::Tag(t, x) => json!({"g": [t.to_string(), to_json(x)]}),
        C::Bool(b) => json!({"o": b}),
        C::Null => json!({"n": 0}),
        C::Float(f) => json!({"f": f.to_bits().to_string()}),
        _ => json!({"unknown": true}),
    }
}

fn from_json(j: &Value) -> C {
    let o = j.as_object().expect("value object");
    let (k, x) = o.iter().next().expect("one key");
    match k.as_str() {
        "i" => {
            let n: i128 = x.as_str().unwrap().parse().expect("i128");
            C::Integer(Integer::try_from(n).expect("integer range"))
        }
        "b" => C::Bytes(unhex(x.as_str().unwrap())),
        "t" => C::Text(String::from_utf8(unhex(x.as_str().unwrap())).expect("utf8")),
        "a" => C::Array(x.as_array().unwrap().iter().map(from_json).collect()),
        "m" => C::Map(
            x.as_array()
                .unwrap()
                .iter()
                .map(|kv| (from_json(&kv[0]), from_json(&kv[1])))
                .collect(),
        ),
        "g" => C::Tag(x[0].as_str().unwrap().parse().expect("u64"), Box::new(from_json(&x[1]))),
        "o" => C::Bool(x.as_bool().unwrap()),
        "n" => C::Null,
        "f" => C::Float(f64::from_bits(x.as_str().unwrap().parse().expect("u64"))),
        other => panic!("unknown value kind {other}"),
    }
}

fn run_case(case: &Value) -> Value {
    match case["op"].as_str().unwrap() {
        // {"op":"cbor_enc","v":T,"wrap":n}: the value wrapped in n nested one-element arrays
        "cbor_enc" => {
            let mut v = from_json(&case["v"]);
            for _ in 0..case["wrap"].as_u64().unwrap_or(0) {
                v = C::Array(vec![v]);
            }
            let mut out = Vec::new();
            match ciborium::ser::into_writer(&v, &mut out) {
                Ok(()) => json!({"ok": true, "bytes": hex(&out)}),
                Err(e) => json!({"ok": false, "err": format!("{e:?}")}),
            }
        }
        // {"op":"cbor_dec","bytes":hex} -> value, number of unread bytes
        "cbor_dec" => {
            let data = get_hex(case, "bytes");
            let mut rd: &[u8] = &data;
            match ciborium::de::from_reader::<C, _>(&mut rd) {
                Ok(v) => {
                    if case["shape_only"].as_bool().unwrap_or(false) {
                        json!({"ok": true, "rest": rd.len()})
                    } else {
                        json!({"ok": true, "v": to_json(&v), "rest": rd.len()})
                    }
                }
                Err(e) => {
                    let kind = match e {
                        ciborium::de::Error::Io(_) => "io",
                        ciborium::de::Error::Syntax(_) => "syntax",
                        ciborium::de::Error::Semantic(..) => "semantic",
                        ciborium::de::Error::RecursionLimitExceeded => "recursion",
                    };
                    json!({"ok": false, "err": kind})
                }
            }
        }
        // {"op":"b64enc","data":hex}
        "b64enc" => {
            let d = get_hex(case, "data");
            let via_string: String = Bytes::from(d.clone()).into();
            json!({"url": hex(encoding::base64url(&d).as_bytes()),
                   "std": hex(encoding::base64(&d).as_bytes()),
                   "bytes_into_string": hex(via_string.as_bytes())})
        }
        // {"op":"b64dec","s":hex of the UTF-8 bytes of the string}
        "b64dec" => {
            let s = String::from_utf8(get_hex(case, "s")).expect("utf8 string");
            let url = encoding::try_from_base64url(&s);
            let any = Bytes::try_from(s.as_str()).ok();
            json!({"url": url.as_ref().map(|b| hex(b)),
                   "bytes": any.map(|b| hex(&b))})
        }
        // {"op":"sha256","data":hex}
        "sha256" => {
            let d = get_hex(case, "data");
            json!({"h": hex(&Sha256::digest(&d))})
        }
        // {"op":"hmac","key":hex,"data":hex}
        "hmac" => {
            let k = get_hex(case, "key");
            let d = get_hex(case, "data");
            let mut m = Hmac::<Sha256>::new_from_slice(&k).expect("hmac key");
            m.update(&d);
            json!({"h": hex(&m.finalize().into_bytes())})
        }
        other => panic!("unknown lib op {other}"),
    }
}

fn main() {
    // deep values (256 levels) are dropped/encoded recursively: run on a big stack
    std::thread::Builder::new()
        .stack_size(256 << 20)
        .spawn(|| pkharness::run_domain(run_case))
        .unwrap()
        .join()
        .unwrap();
}
