//! U2F ceremony domain (the ceremony half of C17, also used by C06): runs the real
//! `<Authenticator as U2fApi>::{register, authenticate}` against the instrumented store / user
//! validation pair of `instr.rs` and reports, per operation, the complete log of trait calls, the
//! result (structured fields and the raw `encode()` bytes) and the store content afterwards.
#![allow(clippy::all)]
use passkey_authenticator::{Authenticator, CredentialIdLength};
use passkey_types::{
    ctap2::{Aaguid, Flags},
    u2f::{AuthenticationParameter, AuthenticationRequest, RegisterRequest},
};
use pkharness::instr::*;
use pkharness::{hex, unhex};
use serde_json::{json, Value};
use std::sync::{Arc, Mutex};

type Auth = Authenticator<LogStore, ScriptedUser>;

fn build_auth(cfg: &Value, store: AnyStore, user: &Value, sh: SharedRef) -> Auth {
    let aaguid_bytes = unhex(cfg["aaguid"].as_str().unwrap_or("00000000000000000000000000000000"));
    let mut a = [0u8; 16];
    a.copy_from_slice(&aaguid_bytes);
    let ls = LogStore { inner: store, sh: sh.clone(), tag: None };
    let us = ScriptedUser::from_json(user, sh, None);
    let mut auth = Authenticator::new(Aaguid(a), ls, us);
    auth.set_make_credentials_with_signature_counter(cfg["counter"].as_bool().unwrap_or(false));
    if let Some(n) = cfg["id_len"].as_u64() {
        auth.set_make_credential_id_length(CredentialIdLength::from(n as u8));
    }
    auth
}

fn arr32(v: &Value) -> [u8; 32] {
    let b = unhex(v.as_str().unwrap());
    let mut a = [0u8; 32];
    a.copy_from_slice(&b);
    a
}

fn take_log(sh: &SharedRef) -> Vec<Value> {
    std::mem::take(&mut sh.lock().unwrap().log)
}

async fn run_op(auth: &mut Auth, op: &Value) -> Value {
    match op["op"].as_str().unwrap() {
        "u2f_register" => {
            let req = RegisterRequest { challenge: arr32(&op["challenge"]), application: arr32(&op["application"]) };
            let handle = unhex(op["handle"].as_str().unwrap());
            // by path: the trait is never imported
            match <Auth as passkey_authenticator::U2fApi>::register(auth, req, &handle).await {
                Ok(r) => {
                    let fields = json!({
                        "x": hex(&r.public_key.x), "y": hex(&r.public_key.y), "key_handle": hex(&r.key_handle),
                        "cert": hex(&r.attestation_certificate), "signature": hex(&r.signature),
                    });
                    let enc = if r.key_handle.len() <= 255 { Some(hex(&r.encode())) } else { None };
                    json!({"ok": fields, "encoded": enc})
                }
                Err(e) => json!({"err": u8::from(e)}),
            }
        }
        "u2f_authenticate" => {
            let p1 = op["parameter"].as_u64().unwrap_or(3) as u8;
            let parameter = match p1 {
                7 => AuthenticationParameter::CheckOnly,
                8 => AuthenticationParameter::DontEnforceUserPresence,
                _ => AuthenticationParameter::EnforceUserPresence,
            };
            let req = AuthenticationRequest {
                parameter,
                application: arr32(&op["application"]),
                challenge: arr32(&op["challenge"]),
                key_handle: unhex(op["key_handle"].as_str().unwrap()),
            };
            let counter = op["counter"].as_u64().unwrap() as u32;
            let flags = Flags::from_bits_truncate(op["flags"].as_u64().unwrap() as u8);
            match <Auth as passkey_authenticator::U2fApi>::authenticate(auth, req, counter, flags).await {
                Ok(r) => {
                    let fields = json!({
                        "user_presence": u8::from(r.user_presence), "counter": r.counter, "signature": hex(&r.signature),
                    });
                    json!({"ok": fields, "encoded": hex(&r.encode())})
                }
                Err(e) => json!({"err": u8::from(e)}),
            }
        }
        k => panic!("unknown op {k}"),
    }
}

fn run_case(case: &Value) -> Value {
    let sh: SharedRef = Arc::new(Mutex::new(Shared::default()));
    {
        let mut s = sh.lock().unwrap();
        if let Some(f) = case["faults"].as_array() {
            for x in f {
                s.faults.insert(x["at"].as_u64().unwrap() as usize, x["code"].as_u64().unwrap() as u8);
            }
        }
    }
    let store = AnyStore::from_json(&case["store"]);
    let mut auth = build_auth(&case["config"], store, &case["user"], sh.clone());
    let mut outs = Vec::new();
    for op in case["ops"].as_array().unwrap() {
        let result = block_on(run_op(&mut auth, op));
        outs.push(json!({
            "log": take_log(&sh),
            "result": result,
            "store_after": auth.store().inner.snapshot(),
        }));
    }
    json!({"ops": outs})
}

fn main() {
    pkharness::run_domain(run_case);
}
