//! Ceremony domain: runs real `Authenticator` ceremonies (CTAP2 level, directly and through the
//! `Ctap2Api` trait) against instrumented store / user-validation implementations and reports, per
//! operation, the complete log of trait calls (arguments and answers), the result and the store
//! content afterwards.  Supports store fault injection, cancellation after n polls, and explicit
//! schedules of several concurrent ceremonies on a shared store.
#![allow(clippy::all)]
use coset::iana::{self, EnumI64};
use passkey_authenticator::{extensions::HmacSecretConfig, Authenticator, CredentialIdLength};
use passkey_types::{
    ctap2::{
        self,
        extensions::{AuthenticatorPrfInputs, AuthenticatorPrfValues, HmacGetSecretInput},
        get_assertion, make_credential, Aaguid, StatusCode,
    },
    webauthn, Bytes,
};
use pkharness::instr::*;
use pkharness::{hex, unhex};
use serde_json::{json, Value};
use std::collections::HashMap;
use std::future::Future;
use std::pin::Pin;
use std::sync::{Arc, Mutex};
use std::task::{Context, Poll};

type Auth = Authenticator<LogStore, ScriptedUser>;

fn build_auth(cfg: &Value, store: AnyStore, user: &Value, sh: SharedRef, tag: Option<u64>) -> Auth {
    let aaguid_bytes = unhex(cfg["aaguid"].as_str().unwrap_or("00000000000000000000000000000000"));
    let mut a = [0u8; 16];
    a.copy_from_slice(&aaguid_bytes);
    let ls = LogStore { inner: store, sh: sh.clone(), tag };
    let us = ScriptedUser::from_json(user, sh, tag);
    let mut auth = Authenticator::new(Aaguid(a), ls, us);
    auth.set_make_credentials_with_signature_counter(cfg["counter"].as_bool().unwrap_or(false));
    if let Some(n) = cfg["id_len"].as_u64() {
        auth.set_make_credential_id_length(CredentialIdLength::from(n as u8));
    }
    if let Some(ts) = cfg["transports"].as_array() {
        // explicit transports list (may be empty or contain duplicates): Authenticator::transports(..)
        let list: Vec<webauthn::AuthenticatorTransport> = ts
            .iter()
            .map(|t| match t.as_str().unwrap_or("") {
                "usb" => webauthn::AuthenticatorTransport::Usb,
                "nfc" => webauthn::AuthenticatorTransport::Nfc,
                "ble" => webauthn::AuthenticatorTransport::Ble,
                "hybrid" => webauthn::AuthenticatorTransport::Hybrid,
                _ => webauthn::AuthenticatorTransport::Internal,
            })
            .collect();
        auth = auth.transports(list);
    }
    if !cfg["hmac"].is_null() {
        let mut hc = if cfg["hmac"]["without_uv"].as_bool().unwrap_or(false) {
            HmacSecretConfig::new_without_uv()
        } else {
            HmacSecretConfig::new_with_uv_only()
        };
        if cfg["hmac"]["on_mc"].as_bool().unwrap_or(false) {
            hc = hc.enable_on_make_credential();
        }
        auth = auth.hmac_secret(hc);
    }
    auth
}

fn utf8(v: &Value) -> String {
    String::from_utf8(unhex(v.as_str().unwrap())).expect("utf8")
}

fn arr32(v: &Value) -> [u8; 32] {
    let b = unhex(v.as_str().unwrap());
    let mut a = [0u8; 32];
    a.copy_from_slice(&b);
    a
}

fn prf_values(v: &Value) -> AuthenticatorPrfValues {
    AuthenticatorPrfValues {
        first: arr32(&v["first"]),
        second: if v["second"].is_null() { None } else { Some(arr32(&v["second"])) },
    }
}

fn prf_inputs(v: &Value) -> AuthenticatorPrfInputs {
    AuthenticatorPrfInputs {
        eval: if v["eval"].is_null() { None } else { Some(prf_values(&v["eval"])) },
        eval_by_credential: v["by_cred"].as_array().map(|l| {
            l.iter()
                .map(|kv| (Bytes::from(unhex(kv[0].as_str().unwrap())), prf_values(&kv[1])))
                .collect::<HashMap<_, _>>()
        }),
    }
}

fn dummy_hmac_input() -> HmacGetSecretInput {
    HmacGetSecretInput {
        key_agreement: ciborium::value::Value::Null,
        salt_enc: vec![0u8; 32].into(),
        salt_auth: vec![0u8; 16].into(),
        pin_uv_auth_protocol: None,
    }
}

/// `tys`: optional parallel list, false = a descriptor whose `type` is not "public-key" (deserialises to Unknown)
// optional parallel lists: `tys` (false = a `type` other than "public-key"), `trs` (the descriptor's transports hint as JSON strings)
fn descriptors_ty(v: &Value, tys: &Value, trs: &Value) -> Option<Vec<webauthn::PublicKeyCredentialDescriptor>> {
    v.as_array().map(|l| {
        l.iter()
            .enumerate()
            .map(|(i, id)| webauthn::PublicKeyCredentialDescriptor {
                ty: if tys[i].as_bool().unwrap_or(true) {
                    webauthn::PublicKeyCredentialType::PublicKey
                } else {
                    webauthn::PublicKeyCredentialType::Unknown
                },
                id: unhex(id.as_str().unwrap()).into(),
                transports: serde_json::from_value(trs[i].clone()).unwrap_or(None),
            })
            .collect()
    })
}

fn options(v: &Value) -> make_credential::Options {
    make_credential::Options {
        rk: v["rk"].as_bool().unwrap(),
        up: v["up"].as_bool().unwrap(),
        uv: v["uv"].as_bool().unwrap(),
    }
}

fn mc_request(q: &Value) -> make_credential::Request {
    make_credential::Request {
        client_data_hash: unhex(q["cdh"].as_str().unwrap()).into(),
        rp: make_credential::PublicKeyCredentialRpEntity {
            id: utf8(&q["rp"]["id"]),
            name: if q["rp"]["name"].is_null() { None } else { Some(utf8(&q["rp"]["name"])) },
        },
        user: webauthn::PublicKeyCredentialUserEntity {
            id: unhex(q["user"]["id"].as_str().unwrap()).into(),
            display_name: utf8(&q["user"]["display"]),
            name: utf8(&q["user"]["name"]),
        },
        pub_key_cred_params: q["params"]
            .as_array()
            .unwrap()
            .iter()
            .map(|a| webauthn::PublicKeyCredentialParameters {
                ty: webauthn::PublicKeyCredentialType::PublicKey,
                alg: iana::Algorithm::from_i64(a.as_i64().unwrap()).expect("known algorithm id"),
            })
            .collect(),
        exclude_list: descriptors_ty(&q["exclude"], &q["exclude_ty"], &q["exclude_tr"]),
        extensions: if q["ext"].is_null() {
            None
        } else {
            let e = &q["ext"];
            Some(make_credential::ExtensionInputs {
                hmac_secret: e["hmac_secret"].as_bool(),
                hmac_secret_mc: if e["hmac_secret_mc"].as_bool().unwrap_or(false) { Some(dummy_hmac_input()) } else { None },
                prf: if e["prf"].is_null() { None } else { Some(prf_inputs(&e["prf"])) },
            })
        },
        options: options(&q["opts"]),
        pin_auth: if q["pin_auth"].as_bool().unwrap_or(false) { Some(vec![1u8; q["pin_auth_len"].as_u64().unwrap_or(16) as usize].into()) } else { None },
        pin_protocol: None,
    }
}

fn ga_request(q: &Value) -> get_assertion::Request {
    get_assertion::Request {
        rp_id: utf8(&q["rp_id"]),
        client_data_hash: unhex(q["cdh"].as_str().unwrap()).into(),
        allow_list: descriptors_ty(&q["allow"], &q["allow_ty"], &q["allow_tr"]),
        extensions: if q["ext"].is_null() {
            None
        } else {
            let e = &q["ext"];
            Some(get_assertion::ExtensionInputs {
                hmac_secret: if e["hmac_secret"].as_bool().unwrap_or(false) { Some(dummy_hmac_input()) } else { None },
                prf: if e["prf"].is_null() { None } else { Some(prf_inputs(&e["prf"])) },
            })
        },
        options: options(&q["opts"]),
        pin_auth: if q["pin_auth"].as_bool().unwrap_or(false) { Some(vec![1u8; q["pin_auth_len"].as_u64().unwrap_or(16) as usize].into()) } else { None },
        pin_protocol: None,
    }
}

fn prf_vals_json(v: &AuthenticatorPrfValues) -> Value {
    json!({"first": hex(&v.first), "second": v.second.as_ref().map(|s| hex(s))})
}

fn auth_data_json(ad: &ctap2::AuthenticatorData) -> Value {
    json!({
        "bytes": hex(&ad.to_vec()),
        "rp_id_hash": hex(ad.rp_id_hash()),
        "flags": ad.flags.bits(),
        "counter": ad.counter,
        "acd": ad.attested_credential_data.as_ref().map(|a| {
            let k = key_to_json(&a.key);
            let alg = match a.key.alg.as_ref() {
                Some(coset::RegisteredLabelWithPrivate::Assigned(alg)) => Some(alg.to_i64()),
                Some(coset::RegisteredLabelWithPrivate::PrivateUse(v)) => Some(*v),
                _ => None,
            };
            json!({"aaguid": hex(&a.aaguid.0), "cred_id": hex(a.credential_id()), "x": k["x"], "y": k["y"], "alg": alg,
                   "has_d": a.key.params.iter().any(|(l, _)| matches!(l, coset::Label::Int(-4)))})
        }),
        "ext": ad.extensions.is_some(),
    })
}

fn mc_result(r: Result<make_credential::Response, StatusCode>) -> Value {
    match r {
        Err(e) => json!({"err": u8::from(e)}),
        Ok(resp) => json!({"ok": {
            "fmt": resp.fmt,
            "auth_data": auth_data_json(&resp.auth_data),
            "att_stmt_empty": matches!(&resp.att_stmt, ciborium::value::Value::Map(m) if m.is_empty()),
            "ep_att": resp.ep_att, "large_blob_key": resp.large_blob_key.is_some(),
            "prf": resp.unsigned_extension_outputs.and_then(|u| u.prf).map(|p| json!({
                "enabled": p.enabled, "results": p.results.as_ref().map(prf_vals_json)})),
        }}),
    }
}

fn ga_result(r: Result<get_assertion::Response, StatusCode>) -> Value {
    match r {
        Err(e) => json!({"err": u8::from(e)}),
        Ok(resp) => json!({"ok": {
            "cred_id": resp.credential.as_ref().map(|c| hex(&c.id)),
            "auth_data": auth_data_json(&resp.auth_data),
            "signature": hex(&resp.signature),
            "user_handle": resp.user.as_ref().map(|u| hex(&u.id)),
            "user_names_empty": resp.user.as_ref().map(|u| u.name.is_empty() && u.display_name.is_empty()),
            "number_of_credentials": resp.number_of_credentials, "user_selected": resp.user_selected,
            "large_blob_key": resp.large_blob_key.is_some(),
            "prf": resp.unsigned_extension_outputs.and_then(|u| u.prf).map(|p| prf_vals_json(&p.results)),
        }}),
    }
}

fn info_result(r: ctap2::get_info::Response) -> Value {
    json!({"ok": {
        "versions": r.versions.len(),
        "prf_ext": r.extensions.as_ref().map(|e| e.iter().any(|x| *x == ctap2::get_info::Extension::Prf)).unwrap_or(false),
        "n_ext": r.extensions.as_ref().map(|e| e.len()),
        "aaguid": hex(&r.aaguid.0),
        "rk": r.options.as_ref().map(|o| o.rk), "uv": r.options.as_ref().and_then(|o| o.uv), "up": r.options.as_ref().map(|o| o.up),
        "max_msg_size": r.max_msg_size.is_some(), "pin_protocols": r.pin_protocols.is_some(),
        "transports": r.transports.as_ref().map(|t| t.iter().map(|x| format!("{:?}", x)).collect::<Vec<_>>()),
    }})
}

/// One operation as a boxed future borrowing the authenticator.
fn run_op<'a>(auth: &'a mut Auth, op: &'a Value) -> Pin<Box<dyn Future<Output = Value> + 'a>> {
    let kind = op["op"].as_str().unwrap().to_string();
    Box::pin(async move {
        match kind.as_str() {
            "make_credential" => mc_result(auth.make_credential(mc_request(&op["req"])).await),
            "get_assertion" => ga_result(auth.get_assertion(ga_request(&op["req"])).await),
            "get_info" => info_result(auth.get_info().await),
            // through the sealed transport-facing trait, by path (never import the trait)
            "trait_make_credential" => mc_result(
                <Auth as passkey_authenticator::Ctap2Api>::make_credential(auth, mc_request(&op["req"])).await,
            ),
            "trait_get_assertion" => ga_result(
                <Auth as passkey_authenticator::Ctap2Api>::get_assertion(auth, ga_request(&op["req"])).await,
            ),
            "trait_get_info" => info_result(<Auth as passkey_authenticator::Ctap2Api>::get_info(auth).await),
            k => panic!("unknown op {k}"),
        }
    })
}

// ------------------------------------------------------------------------------------------------
// WebAuthn client level

use passkey_client::{Client, DefaultClientData, DefaultClientDataWithCustomHash, DefaultClientDataWithExtra, Origin, RpIdVerifier, UnverifiedAssetLink, WebauthnError};

fn werr_json(e: &WebauthnError) -> Value {
    match e {
        WebauthnError::AuthenticatorError(b) => json!({"kind": "AuthenticatorError", "code": b}),
        other => json!({"kind": format!("{:?}", other)}),
    }
}

fn wprf_values(v: &Value) -> webauthn::AuthenticationExtensionsPrfValues {
    webauthn::AuthenticationExtensionsPrfValues {
        first: unhex(v["first"].as_str().unwrap()).into(),
        second: if v["second"].is_null() { None } else { Some(unhex(v["second"].as_str().unwrap()).into()) },
    }
}

fn wprf_inputs(v: &Value) -> webauthn::AuthenticationExtensionsPrfInputs {
    webauthn::AuthenticationExtensionsPrfInputs {
        eval: if v["eval"].is_null() { None } else { Some(wprf_values(&v["eval"])) },
        eval_by_credential: v["by_cred"].as_array().map(|l| {
            l.iter().map(|kv| (utf8(&kv[0]), wprf_values(&kv[1]))).collect::<HashMap<_, _>>()
        }),
    }
}

fn wext(v: &Value) -> Option<webauthn::AuthenticationExtensionsClientInputs> {
    if v.is_null() {
        return None;
    }
    Some(webauthn::AuthenticationExtensionsClientInputs {
        cred_props: v["cred_props"].as_bool(),
        prf: if v["prf"].is_null() { None } else { Some(wprf_inputs(&v["prf"])) },
        prf_already_hashed: if v["prf_hashed"].is_null() { None } else { Some(wprf_inputs(&v["prf_hashed"])) },
    })
}

fn uv_req(v: &Value) -> webauthn::UserVerificationRequirement {
    match v.as_str().unwrap_or("preferred") {
        "required" => webauthn::UserVerificationRequirement::Required,
        "discouraged" => webauthn::UserVerificationRequirement::Discouraged,
        _ => webauthn::UserVerificationRequirement::Preferred,
    }
}

fn creation_options(q: &Value) -> webauthn::CredentialCreationOptions {
    webauthn::CredentialCreationOptions {
        public_key: webauthn::PublicKeyCredentialCreationOptions {
            rp: webauthn::PublicKeyCredentialRpEntity {
                id: if q["rp_id"].is_null() { None } else { Some(utf8(&q["rp_id"])) },
                name: utf8(&q["rp_name"]),
            },
            user: webauthn::PublicKeyCredentialUserEntity {
                id: unhex(q["user"]["id"].as_str().unwrap()).into(),
                display_name: utf8(&q["user"]["display"]),
                name: utf8(&q["user"]["name"]),
            },
            challenge: unhex(q["challenge"].as_str().unwrap()).into(),
            // optional "params_ty": parallel list, false = an entry whose `type` is not "public-key" (deserialises to Unknown)
            pub_key_cred_params: q["params"].as_array().unwrap().iter().enumerate().map(|(i, a)| webauthn::PublicKeyCredentialParameters {
                ty: if q["params_ty"][i].as_bool().unwrap_or(true) { webauthn::PublicKeyCredentialType::PublicKey } else { webauthn::PublicKeyCredentialType::Unknown },
                alg: iana::Algorithm::from_i64(a.as_i64().unwrap()).expect("known algorithm id"),
            }).collect(),
            // members the client does not act on ("timeout", "hints", "attestation", "attestationFormats", the selection's
            // "attachment"): given as the JSON a relying party would send, absent when the scenario does not name them
            timeout: q["timeout"].as_u64().map(|t| t as u32),
            exclude_credentials: descriptors_ty(&q["exclude"], &q["exclude_ty"], &q["exclude_tr"]),
            authenticator_selection: if q["selection"].is_null() { None } else {
                let s = &q["selection"];
                Some(webauthn::AuthenticatorSelectionCriteria {
                    authenticator_attachment: serde_json::from_value(s["attachment"].clone()).unwrap_or(None),
                    resident_key: match s["rk"].as_str() {
                        Some("required") => Some(webauthn::ResidentKeyRequirement::Required),
                        Some("preferred") => Some(webauthn::ResidentKeyRequirement::Preferred),
                        Some("discouraged") => Some(webauthn::ResidentKeyRequirement::Discouraged),
                        _ => None,
                    },
                    require_resident_key: s["require_rk"].as_bool().unwrap_or(false),
                    user_verification: uv_req(&s["uv"]),
                })
            },
            hints: serde_json::from_value(q["hints"].clone()).unwrap_or(None),
            attestation: serde_json::from_value(q["attestation"].clone()).unwrap_or_default(),
            attestation_formats: serde_json::from_value(q["attestation_formats"].clone()).unwrap_or(None),
            extensions: wext(&q["ext"]),
        },
    }
}

fn request_options(q: &Value) -> webauthn::CredentialRequestOptions {
    webauthn::CredentialRequestOptions {
        public_key: webauthn::PublicKeyCredentialRequestOptions {
            challenge: unhex(q["challenge"].as_str().unwrap()).into(),
            timeout: q["timeout"].as_u64().map(|t| t as u32),
            rp_id: if q["rp_id"].is_null() { None } else { Some(utf8(&q["rp_id"])) },
            allow_credentials: descriptors_ty(&q["allow"], &q["allow_ty"], &q["allow_tr"]),
            user_verification: uv_req(&q["uv"]),
            hints: serde_json::from_value(q["hints"].clone()).unwrap_or(None),
            attestation: serde_json::from_value(q["attestation"].clone()).unwrap_or_default(),
            attestation_formats: serde_json::from_value(q["attestation_formats"].clone()).unwrap_or(None),
            extensions: wext(&q["ext"]),
        },
    }
}

fn wprf_out(p: &webauthn::AuthenticationExtensionsPrfOutputs) -> Value {
    json!({"enabled": p.enabled,
           "results": p.results.as_ref().map(|r| json!({"first": hex(&r.first), "second": r.second.as_ref().map(|b| hex(b))}))})
}

fn make_origin(op: &Value) -> Result<Origin<'static>, String> {
    if !op["android"].is_null() {
        let a = &op["android"];
        let url = url::Url::parse("https://example.com/.well-known/assetlinks.json").unwrap();
        UnverifiedAssetLink::new(
            "com.example.app".to_string(),
            a["fingerprint"].as_str().unwrap(),
            utf8(&a["host"]),
            url,
        )
        .map(Origin::Android)
        .map_err(|e| format!("{:?}", e))
    } else {
        url::Url::parse(op["origin"].as_str().unwrap()).map(Origin::from).map_err(|e| format!("{:?}", e))
    }
}

type Cl = Client<LogStore, ScriptedUser, public_suffix::PublicSuffixList>;

async fn client_op(client: &mut Cl, op: &Value, sh: &SharedRef) -> Value {
    let origin = match make_origin(op) {
        Ok(o) => o,
        Err(e) => return json!({"origin_error": e}),
    };
    let allow_localhost = op["allow_localhost"].as_bool().unwrap_or(false);
    let verifier = RpIdVerifier::new(public_suffix::DEFAULT_PROVIDER).allows_insecure_localhost(allow_localhost);
    let rp_opt = if op["req"]["rp_id"].is_null() { None } else { Some(utf8(&op["req"]["rp_id"])) };
    let domain = match verifier.assert_domain(&origin, rp_opt.as_deref()) {
        Ok(r) => json!({"ok": hex(r.as_bytes())}),
        Err(e) => json!({"err": werr_json(&e)}),
    };
    let origin_str = origin.to_string();
    let cd = &op["cd"];
    let mode = cd["mode"].as_str().unwrap_or("default").to_string();
    let result = if op["op"] == "register" {
        let req = creation_options(&op["req"]);
        let r = match mode.as_str() {
            "extra" => client.register(origin, req, DefaultClientDataWithExtra(cd["extra"].clone())).await,
            "hash" => client.register(origin, req, DefaultClientDataWithCustomHash(unhex(cd["hash"].as_str().unwrap()))).await,
            _ => client.register(origin, req, DefaultClientData).await,
        };
        match r {
            Err(e) => json!({"err": werr_json(&e)}),
            Ok(c) => json!({"ok": {
                "id": hex(c.id.as_bytes()), "raw_id": hex(&c.raw_id),
                "client_data_json": hex(&c.response.client_data_json),
                "auth_data": hex(&c.response.authenticator_data),
                "public_key": c.response.public_key.as_ref().map(|b| hex(b)),
                "alg": c.response.public_key_algorithm,
                "att_obj": hex(&c.response.attestation_object),
                "transports": c.response.transports.as_ref().map(|t| t.len()),
                "cred_props": c.client_extension_results.cred_props.as_ref().map(|p| json!({"rk": p.discoverable})),
                "prf": c.client_extension_results.prf.as_ref().map(wprf_out),
            }}),
        }
    } else {
        let req = request_options(&op["req"]);
        let r = match mode.as_str() {
            "extra" => client.authenticate(origin, req, DefaultClientDataWithExtra(cd["extra"].clone())).await,
            "hash" => client.authenticate(origin, req, DefaultClientDataWithCustomHash(unhex(cd["hash"].as_str().unwrap()))).await,
            _ => client.authenticate(origin, req, DefaultClientData).await,
        };
        match r {
            Err(e) => json!({"err": werr_json(&e)}),
            Ok(c) => json!({"ok": {
                "id": hex(c.id.as_bytes()), "raw_id": hex(&c.raw_id),
                "client_data_json": hex(&c.response.client_data_json),
                "auth_data": hex(&c.response.authenticator_data),
                "signature": hex(&c.response.signature),
                "user_handle": c.response.user_handle.as_ref().map(|b| hex(b)),
                "prf": c.client_extension_results.prf.as_ref().map(wprf_out),
                "cred_props": c.client_extension_results.cred_props.is_some(),
            }}),
        }
    };
    let _ = sh;
    json!({"domain": domain, "origin_str": hex(origin_str.as_bytes()), "result": result})
}

/// sequential WebAuthn-level operations through `Client`
fn client_mode(case: &Value) -> Value {
    let sh: SharedRef = Arc::new(Mutex::new(Shared::default()));
    {
        let mut s = sh.lock().unwrap();
        if let Some(f) = case["faults"].as_array() {
            for x in f {
                s.faults.insert(x["at"].as_u64().unwrap() as usize, x["code"].as_u64().unwrap() as u8);
            }
        }
    }
    let store = AnyStore::from_json(&case["store"]);
    sh.lock().unwrap().prompt_store = store.share();
    let auth = build_auth(&case["config"], store, &case["user"], sh.clone(), None);
    let mut outs = Vec::new();
    // `allows_insecure_localhost` is a property of the client: one client per distinct setting
    let mut client: Cl = Client::new(auth);
    let mut current = false;
    for op in case["ops"].as_array().unwrap() {
        let want = op["allow_localhost"].as_bool().unwrap_or(false);
        if want != current {
            client = client.allows_insecure_localhost(want);
            current = want;
        }
        let v = block_on(client_op(&mut client, op, &sh));
        let mut o = v;
        o["log"] = Value::Array(take_log(&sh));
        o["store_after"] = client.authenticator().store().inner.snapshot();
        outs.push(o);
    }
    json!({"ops": outs})
}

fn take_log(sh: &SharedRef) -> Vec<Value> {
    std::mem::take(&mut sh.lock().unwrap().log)
}

fn sequential(case: &Value) -> Value {
    let sh: SharedRef = Arc::new(Mutex::new(Shared::default()));
    {
        let mut s = sh.lock().unwrap();
        if let Some(f) = case["faults"].as_array() {
            for x in f {
                s.faults.insert(x["at"].as_u64().unwrap() as usize, x["code"].as_u64().unwrap() as u8);
            }
        }
        s.yield_before_calls = case["yield"].as_bool().unwrap_or(false);
    }
    let store = AnyStore::from_json(&case["store"]);
    sh.lock().unwrap().prompt_store = store.share();
    let mut auth = build_auth(&case["config"], store, &case["user"], sh.clone(), None);
    let mut outs = Vec::new();
    for op in case["ops"].as_array().unwrap() {
        let result = if let Some(n) = op["cancel_after"].as_u64() {
            // poll n times then drop the future: cancellation at a suspension point
            match poll_n(run_op(&mut auth, op), n as usize) {
                Some(v) => v,
                None => json!({"cancelled": true}),
            }
        } else {
            block_on(run_op(&mut auth, op))
        };
        outs.push(json!({
            "log": take_log(&sh),
            "result": result,
            "store_after": auth.store().inner.snapshot(),
            "store_calls": sh.lock().unwrap().store_calls,
        }));
    }
    json!({"ops": outs})
}

/// Several ceremonies, one authenticator each, sharing one store through an Arc lock wrapper,
/// interleaved exactly as `schedule` says: entry i = index of the ceremony that is polled next.
/// Every store call and user check yields once first, so one poll = "run up to the next call".
fn concurrent(case: &Value) -> Value {
    let sh: SharedRef = Arc::new(Mutex::new(Shared::default()));
    sh.lock().unwrap().yield_before_calls = true;
    if let Some(f) = case["faults"].as_array() {
        let mut s = sh.lock().unwrap();
        for x in f {
            s.faults.insert(x["at"].as_u64().unwrap() as usize, x["code"].as_u64().unwrap() as u8);
        }
    }
    let base = AnyStore::from_json(&case["store"]);
    let ops = case["ceremonies"].as_array().unwrap();
    let mut auths: Vec<Auth> = (0..ops.len())
        .map(|i| {
            let st = base.share().expect("concurrent needs a shared (Arc) store kind");
            let user = if case["users"].is_array() { &case["users"][i] } else { &case["user"] };
            build_auth(&case["config"], st, user, sh.clone(), Some(i as u64))
        })
        .collect();
    let w = noop_waker();
    let mut cx = Context::from_waker(&w);
    let mut results: Vec<Option<Value>> = vec![None; ops.len()];
    let mut polls = vec![0usize; ops.len()];
    let mut deadlock = false;
    {
        let mut futs: Vec<Option<Pin<Box<dyn Future<Output = Value> + '_>>>> = auths
            .iter_mut()
            .zip(ops.iter())
            .map(|(a, op)| Some(run_op(a, op)))
            .collect();
        let schedule: Vec<usize> = case["schedule"].as_array().unwrap().iter().map(|x| x.as_u64().unwrap() as usize).collect();
        // optional: somebody else holds the store's lock from schedule step `from` until step `to` (exclusive)
        let hold_from = case["hold"]["from"].as_u64().map(|x| x as usize);
        let hold_to = case["hold"]["to"].as_u64().map(|x| x as usize);
        let hold_write = case["hold"]["kind"].as_str().unwrap_or("write") == "write";
        let mut held: Option<HeldLock> = None;
        for (step, &i) in schedule.iter().enumerate() {
            if Some(step) == hold_to {
                held = None;
            }
            if Some(step) == hold_from {
                held = base.hold(hold_write);
            }
            if let Some(f) = futs[i].as_mut() {
                polls[i] += 1;
                if let Poll::Ready(v) = f.as_mut().poll(&mut cx) {
                    results[i] = Some(v);
                    futs[i] = None;
                }
            }
        }
        drop(held);
        // drain: finish whatever the schedule left unfinished, round robin; a full round in which
        // every remaining ceremony was polled many times without any finishing is reported.
        let mut rounds = 0;
        while futs.iter().any(|f| f.is_some()) {
            for i in 0..futs.len() {
                if let Some(f) = futs[i].as_mut() {
                    polls[i] += 1;
                    if let Poll::Ready(v) = f.as_mut().poll(&mut cx) {
                        results[i] = Some(v);
                        futs[i] = None;
                    }
                }
            }
            rounds += 1;
            if rounds > 10_000 {
                deadlock = true;
                break;
            }
        }
    }
    json!({
        "log": take_log(&sh),
        "results": results,
        "polls": polls,
        "deadlock": deadlock,
        "store_after": base.snapshot(),
    })
}

fn run_case(case: &Value) -> Value {
    match case["mode"].as_str().unwrap_or("sequential") {
        "sequential" => sequential(case),
        "concurrent" => concurrent(case),
        "client" => client_mode(case),
        m => panic!("unknown mode {m}"),
    }
}

fn main() {
    pkharness::run_domain(run_case);
}
