//! Public-suffix domain (C10): `ListProvider::public_suffix`, `EffectiveTLDProvider::effective_tld_plus_one`,
//! `ListProvider::is_effective_tld` of the real crate on the shipped table (`DEFAULT_PROVIDER`).
use pkharness::{guarded, hex};
use public_suffix::{EffectiveTLDProvider, Error, ListProvider, Table, DEFAULT_PROVIDER};
use serde_json::{json, Value};

/// Sizes and a checksum of the compiled table, to cross-check the translator's reading of tld_list.rs
/// (`TLDList` itself is private; the type parameter is inferred from `DEFAULT_PROVIDER`).
fn table_meta<T: Table>(_: &ListProvider<T>) -> Value {
    let sum = |xs: &[u32]| xs.iter().fold(0u64, |a, x| (a * 31 + *x as u64) % 1_000_000_007);
    let text_sum = T::TEXT.bytes().fold(0u64, |a, x| (a * 31 + x as u64) % 1_000_000_007);
    json!({
        "nodes": T::NODES.len(), "children": T::CHILDREN.len(), "text": T::TEXT.len(),
        "num_tld": T::NUM_TLD, "nodes_sum": sum(T::NODES), "children_sum": sum(T::CHILDREN), "text_sum": text_sum,
        "consts": [T::NODES_BITS_CHILDREN, T::NODES_BITS_ICANN, T::NODES_BITS_TEXT_OFFSET, T::NODES_BITS_TEXT_LENGTH,
                   T::CHILDREN_BITS_WILDCARD, T::CHILDREN_BITS_NODE_TYPE, T::CHILDREN_BITS_HI, T::CHILDREN_BITS_LO,
                   T::NODE_TYPE_NORMAL, T::NODE_TYPE_EXCEPTION, T::NUM_TLD],
    })
}

fn err_code(e: Error) -> u8 {
    match e {
        Error::CannotDeriveETldPlus1 => 0,
        Error::EmptyLabel => 1,
        Error::InvalidPublicSuffix => 2,
        _ => 255,
    }
}

fn run_case(case: &Value) -> Value {
    match case["op"].as_str().unwrap_or("psl") {
        "meta" => table_meta(&DEFAULT_PROVIDER),
        // {"op":"psl","d":"<name>"}  each of the three calls is guarded separately
        "psl" => {
            let d = case["d"].as_str().expect("d").to_string();
            let d1 = d.clone();
            let ps = guarded(move || json!({"v": hex(DEFAULT_PROVIDER.public_suffix(&d1).as_bytes())}));
            let d2 = d.clone();
            let etld1 = guarded(move || match DEFAULT_PROVIDER.effective_tld_plus_one(&d2) {
                Ok(r) => json!({"ok": hex(r.as_bytes())}),
                Err(e) => json!({"err": err_code(e)}),
            });
            let d3 = d.clone();
            let tld = guarded(move || json!({"v": DEFAULT_PROVIDER.is_effective_tld(&d3)}));
            json!({"ps": ps, "etld1": etld1, "tld": tld})
        }
        other => panic!("unknown psl op {other}"),
    }
}

fn main() {
    pkharness::run_domain(run_case);
}
