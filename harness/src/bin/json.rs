//! WebAuthn JSON domain (C14): the serde (de)serialisation of the request-option structs, the
//! credential structs and `CollectedClientData` of passkey-types, through `serde_json` exactly as
//! an embedder uses them (`serde_json::from_str` / `serde_json::to_string`).
//!
//! Built configuration: passkey-types default features, i.e. `serialize_bytes_as_base64_string`
//! is OFF (`Bytes` is written as an array of numbers); serde_json has `preserve_order` (enabled by
//! passkey-types, unified by cargo).
//!
//! Transport form of a JSON *tree* (`T`), read back from text with serde_json's own parser by a
//! visitor that keeps member order AND duplicate members:
//!   null | true | false | {"i":"<decimal>"} | {"f":"<f64 as printed by Rust {:?}>"} | "string"
//!   | [T..] | {"o":[[key,T]..]}
//! Description of a Rust value (`D`), written by hand per struct (not through `Serialize`):
//!   {"B":hex} bytes | {"T":string} | {"b":bool} | {"I":"<decimal>"} | {"E":"VariantName"} (Debug name)
//!   | null = None | {"O":D} = Some | {"L":[D..]} | {"S":[[rust_field,D]..]} in declaration order
//!   | {"M":[[key,D]..]} (HashMap: sorted by key; IndexMap/serde_json::Map: in order) | {"J":T}
use passkey_types::webauthn::*;
use passkey_types::{encoding, Bytes};
use pkharness::{hex, unhex};
use serde::de::{MapAccess, SeqAccess, Visitor};
use serde::{Deserialize, Deserializer};
use serde_json::{json, Value};
use std::collections::HashMap;
use std::fmt;

// ------------------------------------------------------------------------------------------------
// JSON trees

#[derive(Debug, Clone)]
enum Tree {
    Null,
    Bool(bool),
    Int(i128),
    Float(f64),
    Str(String),
    Arr(Vec<Tree>),
    Obj(Vec<(String, Tree)>),
}

impl<'de> Deserialize<'de> for Tree {
    fn deserialize<D: Deserializer<'de>>(d: D) -> Result<Self, D::Error> {
        struct V;
        impl<'de> Visitor<'de> for V {
            type Value = Tree;
            fn expecting(&self, f: &mut fmt::Formatter) -> fmt::Result {
                write!(f, "any JSON value")
            }
            fn visit_unit<E>(self) -> Result<Tree, E> {
                Ok(Tree::Null)
            }
            fn visit_bool<E>(self, v: bool) -> Result<Tree, E> {
                Ok(Tree::Bool(v))
            }
            fn visit_u64<E>(self, v: u64) -> Result<Tree, E> {
                Ok(Tree::Int(v.into()))
            }
            fn visit_i64<E>(self, v: i64) -> Result<Tree, E> {
                Ok(Tree::Int(v.into()))
            }
            fn visit_f64<E>(self, v: f64) -> Result<Tree, E> {
                Ok(Tree::Float(v))
            }
            fn visit_str<E>(self, v: &str) -> Result<Tree, E> {
                Ok(Tree::Str(v.to_string()))
            }
            fn visit_seq<A: SeqAccess<'de>>(self, mut a: A) -> Result<Tree, A::Error> {
                let mut l = Vec::new();
                while let Some(x) = a.next_element::<Tree>()? {
                    l.push(x);
                }
                Ok(Tree::Arr(l))
            }
            fn visit_map<A: MapAccess<'de>>(self, mut a: A) -> Result<Tree, A::Error> {
                let mut l = Vec::new();
                while let Some((k, x)) = a.next_entry::<String, Tree>()? {
                    l.push((k, x));
                }
                Ok(Tree::Obj(l))
            }
        }
        d.deserialize_any(V)
    }
}

fn tree_out(t: &Tree) -> Value {
    match t {
        Tree::Null => Value::Null,
        Tree::Bool(b) => json!(b),
        Tree::Int(i) => json!({"i": i.to_string()}),
        Tree::Float(f) => json!({"f": format!("{:?}", f)}),
        Tree::Str(s) => json!(s),
        Tree::Arr(l) => Value::Array(l.iter().map(tree_out).collect()),
        Tree::Obj(l) => json!({"o": l.iter().map(|(k, x)| json!([k, tree_out(x)])).collect::<Vec<_>>()}),
    }
}

fn tree_of_text(text: &str) -> Value {
    match serde_json::from_str::<Tree>(text) {
        Ok(t) => json!({"ok": tree_out(&t)}),
        Err(e) => json!({"err": e.to_string()}),
    }
}

/// transport tree -> serde_json::Value (for building client-data extras); integers only
fn value_in(t: &Value) -> Value {
    match t {
        Value::Null | Value::Bool(_) | Value::String(_) => t.clone(),
        Value::Array(l) => Value::Array(l.iter().map(value_in).collect()),
        Value::Object(o) => {
            if let Some(i) = o.get("i") {
                let s = i.as_str().expect("i");
                if let Ok(u) = s.parse::<u64>() {
                    json!(u)
                } else {
                    json!(s.parse::<i64>().expect("integer out of i64/u64 range"))
                }
            } else if let Some(f) = o.get("f") {
                json!(f.as_str().expect("f").parse::<f64>().expect("f64"))
            } else {
                let mut m = serde_json::Map::new();
                for kv in o["o"].as_array().expect("o") {
                    m.insert(kv[0].as_str().expect("key").to_string(), value_in(&kv[1]));
                }
                Value::Object(m)
            }
        }
        Value::Number(_) => panic!("bare number in transport tree"),
    }
}

fn value_out(v: &Value) -> Value {
    // through text, so that the tree is what serde_json prints for the value
    let text = serde_json::to_string(v).expect("value to text");
    tree_out(&serde_json::from_str::<Tree>(&text).expect("tree"))
}

// ------------------------------------------------------------------------------------------------
// describing Rust values

fn d_bytes(b: &[u8]) -> Value {
    json!({"B": hex(b)})
}
fn d_str(s: &str) -> Value {
    json!({"T": s})
}
fn d_bool(b: bool) -> Value {
    json!({"b": b})
}
fn d_int(i: i128) -> Value {
    json!({"I": i.to_string()})
}
fn d_enum<T: fmt::Debug>(e: &T) -> Value {
    json!({"E": format!("{:?}", e)})
}
fn d_opt<T>(o: &Option<T>, f: impl Fn(&T) -> Value) -> Value {
    match o {
        None => Value::Null,
        Some(x) => json!({"O": f(x)}),
    }
}
fn d_list<T>(l: &[T], f: impl Fn(&T) -> Value) -> Value {
    json!({"L": l.iter().map(f).collect::<Vec<_>>()})
}
fn d_struct(fields: Vec<(&str, Value)>) -> Value {
    json!({"S": fields.into_iter().map(|(k, v)| json!([k, v])).collect::<Vec<_>>()})
}

fn d_rp(x: &PublicKeyCredentialRpEntity) -> Value {
    d_struct(vec![("id", d_opt(&x.id, |s| d_str(s))), ("name", d_str(&x.name))])
}
fn d_user(x: &PublicKeyCredentialUserEntity) -> Value {
    d_struct(vec![("id", d_bytes(&x.id)), ("display_name", d_str(&x.display_name)), ("name", d_str(&x.name))])
}
fn d_params(x: &PublicKeyCredentialParameters) -> Value {
    use coset::iana::EnumI64;
    d_struct(vec![("ty", d_enum(&x.ty)), ("alg", d_int(x.alg.to_i64().into()))])
}
fn d_descriptor(x: &PublicKeyCredentialDescriptor) -> Value {
    d_struct(vec![
        ("ty", d_enum(&x.ty)),
        ("id", d_bytes(&x.id)),
        ("transports", d_opt(&x.transports, |l| d_list(l, d_enum))),
    ])
}
fn d_selection(x: &AuthenticatorSelectionCriteria) -> Value {
    d_struct(vec![
        ("authenticator_attachment", d_opt(&x.authenticator_attachment, d_enum)),
        ("resident_key", d_opt(&x.resident_key, d_enum)),
        ("require_resident_key", d_bool(x.require_resident_key)),
        ("user_verification", d_enum(&x.user_verification)),
    ])
}
fn d_prf_values(x: &AuthenticationExtensionsPrfValues) -> Value {
    d_struct(vec![("first", d_bytes(&x.first)), ("second", d_opt(&x.second, |b| d_bytes(b)))])
}
fn d_prf_inputs(x: &AuthenticationExtensionsPrfInputs) -> Value {
    d_struct(vec![
        ("eval", d_opt(&x.eval, d_prf_values)),
        (
            "eval_by_credential",
            d_opt(&x.eval_by_credential, |m: &HashMap<String, AuthenticationExtensionsPrfValues>| {
                let mut l: Vec<_> = m.iter().collect();
                l.sort_by(|a, b| a.0.as_bytes().cmp(b.0.as_bytes()));
                json!({"M": l.into_iter().map(|(k, v)| json!([k, d_prf_values(v)])).collect::<Vec<_>>()})
            }),
        ),
    ])
}
fn d_ext_inputs(x: &AuthenticationExtensionsClientInputs) -> Value {
    d_struct(vec![
        ("cred_props", d_opt(&x.cred_props, |b| d_bool(*b))),
        ("prf", d_opt(&x.prf, d_prf_inputs)),
        ("prf_already_hashed", d_opt(&x.prf_already_hashed, d_prf_inputs)),
    ])
}
fn d_creation(x: &PublicKeyCredentialCreationOptions) -> Value {
    d_struct(vec![
        ("rp", d_rp(&x.rp)),
        ("user", d_user(&x.user)),
        ("challenge", d_bytes(&x.challenge)),
        ("pub_key_cred_params", d_list(&x.pub_key_cred_params, d_params)),
        ("timeout", d_opt(&x.timeout, |n| d_int((*n).into()))),
        ("exclude_credentials", d_opt(&x.exclude_credentials, |l| d_list(l, d_descriptor))),
        ("authenticator_selection", d_opt(&x.authenticator_selection, d_selection)),
        ("hints", d_opt(&x.hints, |l| d_list(l, d_enum))),
        ("attestation", d_enum(&x.attestation)),
        ("attestation_formats", d_opt(&x.attestation_formats, |l| d_list(l, d_enum))),
        ("extensions", d_opt(&x.extensions, d_ext_inputs)),
    ])
}
fn d_request(x: &PublicKeyCredentialRequestOptions) -> Value {
    d_struct(vec![
        ("challenge", d_bytes(&x.challenge)),
        ("timeout", d_opt(&x.timeout, |n| d_int((*n).into()))),
        ("rp_id", d_opt(&x.rp_id, |s| d_str(s))),
        ("allow_credentials", d_opt(&x.allow_credentials, |l| d_list(l, d_descriptor))),
        ("user_verification", d_enum(&x.user_verification)),
        ("hints", d_opt(&x.hints, |l| d_list(l, d_enum))),
        ("attestation", d_enum(&x.attestation)),
        ("attestation_formats", d_opt(&x.attestation_formats, |l| d_list(l, d_enum))),
        ("extensions", d_opt(&x.extensions, d_ext_inputs)),
    ])
}
fn d_cred_props(x: &CredentialPropertiesOutput) -> Value {
    d_struct(vec![("discoverable", d_opt(&x.discoverable, |b| d_bool(*b)))])
}
fn d_prf_outputs(x: &AuthenticationExtensionsPrfOutputs) -> Value {
    d_struct(vec![("enabled", d_opt(&x.enabled, |b| d_bool(*b))), ("results", d_opt(&x.results, d_prf_values))])
}
fn d_ext_outputs(x: &AuthenticationExtensionsClientOutputs) -> Value {
    d_struct(vec![("cred_props", d_opt(&x.cred_props, d_cred_props)), ("prf", d_opt(&x.prf, d_prf_outputs))])
}
fn d_attestation_response(x: &AuthenticatorAttestationResponse) -> Value {
    d_struct(vec![
        ("client_data_json", d_bytes(&x.client_data_json)),
        ("authenticator_data", d_bytes(&x.authenticator_data)),
        ("public_key", d_opt(&x.public_key, |b| d_bytes(b))),
        ("public_key_algorithm", d_int(x.public_key_algorithm.into())),
        ("attestation_object", d_bytes(&x.attestation_object)),
        ("transports", d_opt(&x.transports, |l| d_list(l, d_enum))),
    ])
}
fn d_assertion_response(x: &AuthenticatorAssertionResponse) -> Value {
    d_struct(vec![
        ("client_data_json", d_bytes(&x.client_data_json)),
        ("authenticator_data", d_bytes(&x.authenticator_data)),
        ("signature", d_bytes(&x.signature)),
        ("user_handle", d_opt(&x.user_handle, |b| d_bytes(b))),
        ("attestation_object", d_opt(&x.attestation_object, |b| d_bytes(b))),
    ])
}
fn d_credential<R: AuthenticatorResponse>(x: &PublicKeyCredential<R>, dr: impl Fn(&R) -> Value) -> Value {
    d_struct(vec![
        ("id", d_str(&x.id)),
        ("raw_id", d_bytes(&x.raw_id)),
        ("ty", d_enum(&x.ty)),
        ("response", dr(&x.response)),
        ("authenticator_attachment", d_opt(&x.authenticator_attachment, d_enum)),
        ("client_extension_results", d_ext_outputs(&x.client_extension_results)),
    ])
}

// ------------------------------------------------------------------------------------------------
// building Rust values from descriptions (credentials only: the values the client emits)

fn field<'a>(d: &'a Value, i: usize, name: &str) -> &'a Value {
    let f = &d["S"][i];
    assert_eq!(f[0].as_str(), Some(name), "field {i} of description");
    &f[1]
}
fn b_bytes(d: &Value) -> Bytes {
    Bytes::from(unhex(d["B"].as_str().expect("B")))
}
fn b_str(d: &Value) -> String {
    d["T"].as_str().expect("T").to_string()
}
fn b_bool(d: &Value) -> bool {
    d["b"].as_bool().expect("b")
}
fn b_opt<T>(d: &Value, f: impl Fn(&Value) -> T) -> Option<T> {
    if d.is_null() {
        None
    } else {
        Some(f(&d["O"]))
    }
}
fn b_enum<T: fmt::Debug + Copy>(d: &Value, all: &[T]) -> T {
    let n = d["E"].as_str().expect("E");
    *all.iter().find(|v| format!("{:?}", v) == n).unwrap_or_else(|| panic!("no variant {n}"))
}
const TRANSPORTS: [AuthenticatorTransport; 5] = [
    AuthenticatorTransport::Usb,
    AuthenticatorTransport::Nfc,
    AuthenticatorTransport::Ble,
    AuthenticatorTransport::Hybrid,
    AuthenticatorTransport::Internal,
];
const ATTACHMENTS: [AuthenticatorAttachment; 2] = [AuthenticatorAttachment::Platform, AuthenticatorAttachment::CrossPlatform];
const CRED_TYPES: [PublicKeyCredentialType; 2] = [PublicKeyCredentialType::PublicKey, PublicKeyCredentialType::Unknown];
const CD_TYPES: [ClientDataType; 3] = [ClientDataType::Create, ClientDataType::Get, ClientDataType::PaymentGet];

fn b_prf_values(d: &Value) -> AuthenticationExtensionsPrfValues {
    AuthenticationExtensionsPrfValues { first: b_bytes(field(d, 0, "first")), second: b_opt(field(d, 1, "second"), b_bytes) }
}
fn b_ext_outputs(d: &Value) -> AuthenticationExtensionsClientOutputs {
    AuthenticationExtensionsClientOutputs {
        cred_props: b_opt(field(d, 0, "cred_props"), |c| CredentialPropertiesOutput {
            discoverable: b_opt(field(c, 0, "discoverable"), b_bool),
        }),
        prf: b_opt(field(d, 1, "prf"), |p| AuthenticationExtensionsPrfOutputs {
            enabled: b_opt(field(p, 0, "enabled"), b_bool),
            results: b_opt(field(p, 1, "results"), b_prf_values),
        }),
    }
}
fn b_attestation_response(d: &Value) -> AuthenticatorAttestationResponse {
    AuthenticatorAttestationResponse {
        client_data_json: b_bytes(field(d, 0, "client_data_json")),
        authenticator_data: b_bytes(field(d, 1, "authenticator_data")),
        public_key: b_opt(field(d, 2, "public_key"), b_bytes),
        public_key_algorithm: field(d, 3, "public_key_algorithm")["I"].as_str().expect("I").parse().expect("i64"),
        attestation_object: b_bytes(field(d, 4, "attestation_object")),
        transports: b_opt(field(d, 5, "transports"), |l| {
            l["L"].as_array().expect("L").iter().map(|e| b_enum(e, &TRANSPORTS)).collect()
        }),
    }
}
fn b_assertion_response(d: &Value) -> AuthenticatorAssertionResponse {
    AuthenticatorAssertionResponse {
        client_data_json: b_bytes(field(d, 0, "client_data_json")),
        authenticator_data: b_bytes(field(d, 1, "authenticator_data")),
        signature: b_bytes(field(d, 2, "signature")),
        user_handle: b_opt(field(d, 3, "user_handle"), b_bytes),
        attestation_object: b_opt(field(d, 4, "attestation_object"), b_bytes),
    }
}
fn b_credential<R: AuthenticatorResponse>(d: &Value, br: impl Fn(&Value) -> R) -> PublicKeyCredential<R> {
    PublicKeyCredential {
        id: b_str(field(d, 0, "id")),
        raw_id: b_bytes(field(d, 1, "raw_id")),
        ty: b_enum(field(d, 2, "ty"), &CRED_TYPES),
        response: br(field(d, 3, "response")),
        authenticator_attachment: b_opt(field(d, 4, "authenticator_attachment"), |e| b_enum(e, &ATTACHMENTS)),
        client_extension_results: b_ext_outputs(field(d, 5, "client_extension_results")),
    }
}

// ------------------------------------------------------------------------------------------------
// client data

/// Extra data with a fixed member, as the Android integration of passkey-client uses
#[derive(Debug, Clone, serde::Serialize, Deserialize)]
#[serde(rename_all = "camelCase")]
struct AndroidExtra {
    android_package_name: String,
}

fn d_json_map<'a>(it: impl Iterator<Item = (&'a String, &'a Value)>) -> Value {
    json!({"M": it.map(|(k, v)| json!([k, {"J": value_out(v)}])).collect::<Vec<_>>()})
}

fn d_client_data<E: Clone + serde::Serialize>(x: &CollectedClientData<E>, extra: Value) -> Value {
    d_struct(vec![
        ("ty", d_enum(&x.ty)),
        ("challenge", d_str(&x.challenge)),
        ("origin", d_str(&x.origin)),
        ("cross_origin", d_opt(&x.cross_origin, |b| d_bool(*b))),
        ("extra_data", extra),
        ("unknown_keys", d_json_map(x.unknown_keys.iter())),
    ])
}

fn cd_parse(e: &str, text: &str) -> Value {
    fn res<T>(r: Result<T, serde_json::Error>, f: impl Fn(&T) -> Value) -> Value {
        match r {
            Ok(x) => json!({"ok": f(&x)}),
            Err(err) => json!({"err": err.to_string()}),
        }
    }
    match e {
        "unit" => res(serde_json::from_str::<CollectedClientData<()>>(text), |x| d_client_data(x, json!({"M": []}))),
        "map" => res(serde_json::from_str::<CollectedClientData<serde_json::Map<String, Value>>>(text), |x| {
            d_client_data(x, d_json_map(x.extra_data.iter()))
        }),
        "android" => res(serde_json::from_str::<CollectedClientData<AndroidExtra>>(text), |x| {
            d_client_data(x, json!({"M": [["androidPackageName", {"J": x.extra_data.android_package_name}]]}))
        }),
        other => panic!("unknown extra kind {other}"),
    }
}

fn pairs(t: &Value) -> Vec<(String, Value)> {
    t["o"].as_array().expect("o").iter().map(|kv| (kv[0].as_str().expect("key").to_string(), value_in(&kv[1]))).collect()
}

fn cd_emit(case: &Value) -> Value {
    let e = case["e"].as_str().expect("e");
    let ty = b_enum(&json!({"E": case["ty"]}), &CD_TYPES);
    let challenge = case["challenge"].as_str().expect("challenge").to_string();
    let origin = case["origin"].as_str().expect("origin").to_string();
    let cross_origin = case["cross"].as_bool();
    let unknown = pairs(&case["unknown"]);
    let text = match e {
        "unit" => serde_json::to_string(&CollectedClientData {
            ty,
            challenge,
            origin,
            cross_origin,
            extra_data: (),
            unknown_keys: unknown.into_iter().collect(),
        }),
        "map" => {
            let mut m = serde_json::Map::new();
            for (k, v) in pairs(&case["extra"]) {
                m.insert(k, v);
            }
            serde_json::to_string(&CollectedClientData {
                ty,
                challenge,
                origin,
                cross_origin,
                extra_data: m,
                unknown_keys: unknown.into_iter().collect(),
            })
        }
        "android" => serde_json::to_string(&CollectedClientData {
            ty,
            challenge,
            origin,
            cross_origin,
            extra_data: AndroidExtra { android_package_name: case["extra"]["o"][0][1].as_str().expect("package name").to_string() },
            unknown_keys: unknown.into_iter().collect(),
        }),
        other => panic!("unknown extra kind {other}"),
    };
    match text {
        Ok(text) => json!({"text": text, "tree": tree_of_text(&text), "reparse": cd_parse(e, &text)}),
        Err(err) => json!({"emit_err": err.to_string()}),
    }
}

// ------------------------------------------------------------------------------------------------

fn parsed<T: serde::de::DeserializeOwned>(text: &str, via: &str, f: impl Fn(&T) -> Value) -> Value {
    let r: Result<T, String> = match via {
        // the way an embedder reads a request: straight from the text
        "json" => serde_json::from_str::<T>(text).map_err(|e| e.to_string()),
        // the way `PossiblyUnknown` reads a list element: generic value first, then the type
        "cbor" => serde_json::from_str::<ciborium::Value>(text)
            .map_err(|e| e.to_string())
            .and_then(|v| v.deserialized::<T>().map_err(|e| e.to_string())),
        other => panic!("unknown via {other}"),
    };
    match r {
        Ok(x) => json!({"ok": f(&x)}),
        Err(e) => json!({"err": e}),
    }
}

fn parse_ty(ty: &str, text: &str, via: &str) -> Value {
    match ty {
        "PublicKeyCredentialCreationOptions" => parsed::<PublicKeyCredentialCreationOptions>(text, via, d_creation),
        "PublicKeyCredentialRequestOptions" => parsed::<PublicKeyCredentialRequestOptions>(text, via, d_request),
        "CredentialCreationOptions" => {
            parsed::<CredentialCreationOptions>(text, via, |x| d_struct(vec![("public_key", d_creation(&x.public_key))]))
        }
        "CredentialRequestOptions" => {
            parsed::<CredentialRequestOptions>(text, via, |x| d_struct(vec![("public_key", d_request(&x.public_key))]))
        }
        "PublicKeyCredentialRpEntity" => parsed::<PublicKeyCredentialRpEntity>(text, via, d_rp),
        "PublicKeyCredentialUserEntity" => parsed::<PublicKeyCredentialUserEntity>(text, via, d_user),
        "PublicKeyCredentialParameters" => parsed::<PublicKeyCredentialParameters>(text, via, d_params),
        "PublicKeyCredentialDescriptor" => parsed::<PublicKeyCredentialDescriptor>(text, via, d_descriptor),
        "AuthenticatorSelectionCriteria" => parsed::<AuthenticatorSelectionCriteria>(text, via, d_selection),
        "AuthenticationExtensionsClientInputs" => parsed::<AuthenticationExtensionsClientInputs>(text, via, d_ext_inputs),
        "AuthenticationExtensionsClientOutputs" => parsed::<AuthenticationExtensionsClientOutputs>(text, via, d_ext_outputs),
        "AuthenticationExtensionsPrfInputs" => parsed::<AuthenticationExtensionsPrfInputs>(text, via, d_prf_inputs),
        "AuthenticationExtensionsPrfValues" => parsed::<AuthenticationExtensionsPrfValues>(text, via, d_prf_values),
        "AuthenticationExtensionsPrfOutputs" => parsed::<AuthenticationExtensionsPrfOutputs>(text, via, d_prf_outputs),
        "CredentialPropertiesOutput" => parsed::<CredentialPropertiesOutput>(text, via, d_cred_props),
        "AuthenticatorAttestationResponse" => parsed::<AuthenticatorAttestationResponse>(text, via, d_attestation_response),
        "AuthenticatorAssertionResponse" => parsed::<AuthenticatorAssertionResponse>(text, via, d_assertion_response),
        "CreatedPublicKeyCredential" => {
            parsed::<CreatedPublicKeyCredential>(text, via, |x| d_credential(x, d_attestation_response))
        }
        "AuthenticatedPublicKeyCredential" => {
            parsed::<AuthenticatedPublicKeyCredential>(text, via, |x| d_credential(x, d_assertion_response))
        }
        "Bytes" => parsed::<Bytes>(text, via, |b| d_bytes(b)),
        other => panic!("unknown type {other}"),
    }
}

fn run_case(case: &Value) -> Value {
    match case["op"].as_str().expect("op") {
        // {"op":"parse","ty":name,"via":"json"|"cbor","text":..} -> {"ok":D}|{"err":..}, plus the tree serde_json reads
        "parse" => {
            let text = case["text"].as_str().expect("text");
            let via = case["via"].as_str().unwrap_or("json");
            let mut r = parse_ty(case["ty"].as_str().expect("ty"), text, via);
            if case["tree"].as_bool().unwrap_or(true) {
                r["tree"] = tree_of_text(text);
            }
            r
        }
        // {"op":"parse_many","ty":..,"via":..,"texts":[..]} -> {"results":[..]} (no trees)
        "parse_many" => {
            let via = case["via"].as_str().unwrap_or("json");
            let ty = case["ty"].as_str().expect("ty");
            let rs: Vec<Value> = case["texts"].as_array().expect("texts").iter().map(|t| parse_ty(ty, t.as_str().expect("text"), via)).collect();
            json!({"results": rs})
        }
        // {"op":"emit","ty":"CreatedPublicKeyCredential"|"AuthenticatedPublicKeyCredential","desc":D}
        "emit" => {
            let d = &case["desc"];
            let (text, ty) = match case["ty"].as_str().expect("ty") {
                "CreatedPublicKeyCredential" => {
                    (serde_json::to_string(&b_credential(d, b_attestation_response)), "CreatedPublicKeyCredential")
                }
                "AuthenticatedPublicKeyCredential" => {
                    (serde_json::to_string(&b_credential(d, b_assertion_response)), "AuthenticatedPublicKeyCredential")
                }
                other => panic!("unknown type {other}"),
            };
            match text {
                Ok(text) => json!({"text": text, "tree": tree_of_text(&text), "reparse": parse_ty(ty, &text, "json")}),
                Err(err) => json!({"emit_err": err.to_string()}),
            }
        }
        "cd_emit" => cd_emit(case),
        "cd_parse" => {
            let text = case["text"].as_str().expect("text");
            let mut r = cd_parse(case["e"].as_str().expect("e"), text);
            r["tree"] = tree_of_text(text);
            r
        }
        // {"op":"b64","bytes":hex}: the encoders of utils/encoding.rs and the decoders applied to their output
        "b64" => {
            let b = unhex(case["bytes"].as_str().expect("bytes"));
            let url = encoding::base64url(&b);
            let std = encoding::base64(&b);
            let from_bytes: String = Bytes::from(b.clone()).into();
            let dec = |s: &str| match encoding::try_from_base64url(s) {
                Some(x) => json!(hex(&x)),
                None => Value::Null,
            };
            let tf = |s: &str| match Bytes::try_from(s) {
                Ok(x) => json!(hex(&x)),
                Err(_) => Value::Null,
            };
            json!({"url": url, "std": std, "from_bytes": from_bytes, "dec_url": dec(&url),
                   "try_from_url": tf(&url), "try_from_std": tf(&std)})
        }
        // {"op":"alg_sweep","lo":..,"hi":..}: every integer in [lo,hi] accepted as `alg` (through i64_to_iana)
        "alg_sweep" => {
            let lo = case["lo"].as_i64().expect("lo");
            let hi = case["hi"].as_i64().expect("hi");
            let mut acc = Vec::new();
            for i in lo..=hi {
                let text = format!("{{\"type\":\"public-key\",\"alg\":{}}}", i);
                if let Ok(p) = serde_json::from_str::<PublicKeyCredentialParameters>(&text) {
                    use coset::iana::EnumI64;
                    assert_eq!(p.alg.to_i64(), i);
                    acc.push(i);
                }
            }
            json!({"accepted": acc})
        }
        other => panic!("unknown op {other}"),
    }
}

fn main() {
    pkharness::run_domain(run_case)
}
