//! Robustness domain (C15): every public decoder of untrusted input, one op per decoder family.
//! Per case the worker reports
//!   class   "value" | "error" | "panic"            (panics are caught inside the case)
//!   max / total / count                             heap allocation requests during the decoder call
//!   us                                              wall clock of the decoder call, microseconds
//!   + op specific detail used by the Coq models (decoded bytes, key structure, packets out, ...)
//! What kills the worker is observed by the driver (`common.harness_run` re-runs a dead batch one case
//! per process): an allocation request above 1 GiB is refused by the allocator itself, which is the
//! Rust allocation-failure abort (`memory allocation of N bytes failed`, SIGABRT) independent of the
//! kernel's overcommit policy; a stack overflow is SIGABRT/SIGSEGV; a case running longer than
//! PK_ROBUST_KILL_MS (default 10 s) makes the watchdog thread exit the process with status 98.
#![allow(clippy::all)]
use coset::iana::{self, EnumI64};
use coset::{CborSerializable, CoseKey, Label, RegisteredLabel, RegisteredLabelWithPrivate};
use passkey_client::{valid_fingerprint, Origin, RpIdVerifier, UnverifiedAssetLink, ValidationError};
use passkey_transports::hid::ChannelHandler;
use passkey_types::ctap2::{get_assertion, get_info, make_credential, Aaguid, AttestedCredentialData, AuthenticatorData, Flags};
use passkey_types::webauthn::{
    self, AuthenticatorTransport, CollectedClientData, PublicKeyCredentialCreationOptions, PublicKeyCredentialDescriptor,
    PublicKeyCredentialRequestOptions, PublicKeyCredentialType,
};
use passkey_types::{u2f, Bytes};
use pkharness::{get_hex, hex, unhex};
use public_suffix::{EffectiveTLDProvider, DEFAULT_PROVIDER};
use serde_json::{json, Value};
use std::alloc::{GlobalAlloc, Layout, System};
use std::panic::{catch_unwind, AssertUnwindSafe};
use std::sync::atomic::{AtomicBool, AtomicU64, AtomicUsize, Ordering::Relaxed};
use std::time::Instant;

// ---------------------------------------------------------------------------------------------
// counting allocator

struct Counting;
static ON: AtomicBool = AtomicBool::new(false);
static COUNT: AtomicUsize = AtomicUsize::new(0);
static MAX: AtomicUsize = AtomicUsize::new(0);
static TOTAL: AtomicUsize = AtomicUsize::new(0);
/// requests above this are refused (null => `handle_alloc_error` => abort), so that a huge
/// `with_capacity` shows up as the allocation-failure abort instead of succeeding lazily
const REFUSE_ABOVE: usize = 1 << 30;

fn note(size: usize) {
    if ON.load(Relaxed) {
        COUNT.fetch_add(1, Relaxed);
        TOTAL.fetch_add(size, Relaxed);
        MAX.fetch_max(size, Relaxed);
    }
}

unsafe impl GlobalAlloc for Counting {
    unsafe fn alloc(&self, l: Layout) -> *mut u8 {
        note(l.size());
        if l.size() > REFUSE_ABOVE {
            return std::ptr::null_mut();
        }
        System.alloc(l)
    }
    unsafe fn alloc_zeroed(&self, l: Layout) -> *mut u8 {
        note(l.size());
        if l.size() > REFUSE_ABOVE {
            return std::ptr::null_mut();
        }
        System.alloc_zeroed(l)
    }
    unsafe fn realloc(&self, p: *mut u8, l: Layout, new_size: usize) -> *mut u8 {
        note(new_size);
        if new_size > REFUSE_ABOVE {
            return std::ptr::null_mut();
        }
        System.realloc(p, l, new_size)
    }
    unsafe fn dealloc(&self, p: *mut u8, l: Layout) {
        System.dealloc(p, l)
    }
}

#[global_allocator]
static GLOBAL: Counting = Counting;

// ---------------------------------------------------------------------------------------------
// watchdog

static T0: std::sync::OnceLock<Instant> = std::sync::OnceLock::new();
/// milliseconds since T0 at which the running decoder call started; 0 = no call in progress
static CASE_START: AtomicU64 = AtomicU64::new(0);

fn now_ms() -> u64 {
    T0.get().map(|t| t.elapsed().as_millis() as u64 + 1).unwrap_or(1)
}

fn start_watchdog() {
    T0.get_or_init(Instant::now);
    let limit: u64 = std::env::var("PK_ROBUST_KILL_MS").ok().and_then(|s| s.parse().ok()).unwrap_or(10_000);
    std::thread::spawn(move || loop {
        std::thread::sleep(std::time::Duration::from_millis(50));
        let s = CASE_START.load(Relaxed);
        if s != 0 && now_ms().saturating_sub(s) > limit {
            eprintln!("watchdog: decoder call still running after {limit} ms");
            std::process::exit(98);
        }
    });
}

// ---------------------------------------------------------------------------------------------
// one measured decoder call

/// `decode` is the measured decoder call (allocation counting and the clock cover it and the drop of
/// its result); `describe` turns the result into (is_value, detail) outside the counted region.
fn measured<R>(decode: impl FnOnce() -> R, describe: impl FnOnce(&R) -> (bool, Value)) -> Value {
    COUNT.store(0, Relaxed);
    MAX.store(0, Relaxed);
    TOTAL.store(0, Relaxed);
    CASE_START.store(now_ms(), Relaxed);
    let mut us = 0u64;
    let r = catch_unwind(AssertUnwindSafe(|| {
        let t = Instant::now();
        ON.store(true, Relaxed);
        let r = decode();
        ON.store(false, Relaxed);
        us = t.elapsed().as_micros() as u64;
        let d = describe(&r);
        let t = Instant::now();
        drop(r);
        us += t.elapsed().as_micros() as u64;
        d
    }));
    ON.store(false, Relaxed);
    CASE_START.store(0, Relaxed);
    let (count, max, total) = (COUNT.load(Relaxed), MAX.load(Relaxed), TOTAL.load(Relaxed));
    let (class, detail) = match r {
        Ok((true, d)) => ("value", d),
        Ok((false, d)) => ("error", d),
        Err(e) => {
            let msg = if let Some(s) = e.downcast_ref::<&str>() {
                s.to_string()
            } else if let Some(s) = e.downcast_ref::<String>() {
                s.clone()
            } else {
                "?".to_string()
            };
            ("panic", json!({"msg": msg.chars().take(200).collect::<String>()}))
        }
    };
    json!({"class": class, "max": max, "total": total, "count": count, "us": us, "detail": detail})
}

/// decoders whose result is only classified
fn classify<T, E>(r: &Result<T, E>) -> (bool, Value) {
    (r.is_ok(), Value::Null)
}

fn cbor_as<T: serde::de::DeserializeOwned>(b: &[u8]) -> Value {
    measured(|| ciborium::de::from_reader::<T, _>(b), classify)
}

fn json_as<T: serde::de::DeserializeOwned>(b: &[u8]) -> Value {
    measured(|| serde_json::from_slice::<T>(b), classify)
}

fn bytes_detail<E>(r: &Result<Bytes, E>) -> (bool, Value) {
    match r {
        Ok(v) => (true, json!({"bytes": hex(v)})),
        Err(_) => (false, Value::Null),
    }
}

fn descriptor_detail<E>(r: &Result<PublicKeyCredentialDescriptor, E>) -> (bool, Value) {
    match r {
        Ok(d) => (
            true,
            json!({
                "id": hex(&d.id),
                "known_type": d.is_known(),
                "transports": d.transports.as_ref().map(|l| l.iter().map(transport_name).collect::<Vec<_>>()),
            }),
        ),
        Err(_) => (false, Value::Null),
    }
}

fn input_string(case: &Value) -> String {
    match case.get("s").and_then(|s| s.as_str()) {
        Some(s) => s.to_owned(),
        None => String::from_utf8(get_hex(case, "hex")).expect("harness: string ops take UTF-8"),
    }
}

fn transport_name(t: &AuthenticatorTransport) -> &'static str {
    match t {
        AuthenticatorTransport::Usb => "usb",
        AuthenticatorTransport::Nfc => "nfc",
        AuthenticatorTransport::Ble => "ble",
        AuthenticatorTransport::Hybrid => "hybrid",
        AuthenticatorTransport::Internal => "internal",
    }
}

// ---------------------------------------------------------------------------------------------
// COSE keys

fn label_json(l: &Label) -> Value {
    match l {
        Label::Int(i) => json!({"i": i}),
        Label::Text(t) => json!({"t": t}),
    }
}

fn key_json(k: &CoseKey) -> Value {
    let kty = match &k.kty {
        RegisteredLabel::Assigned(t) => json!({"i": t.to_i64()}),
        RegisteredLabel::Text(t) => json!({"t": t}),
    };
    let alg = match &k.alg {
        None => Value::Null,
        Some(RegisteredLabelWithPrivate::Assigned(a)) => json!({"i": a.to_i64()}),
        Some(RegisteredLabelWithPrivate::PrivateUse(i)) => json!({"p": i}),
        Some(RegisteredLabelWithPrivate::Text(t)) => json!({"t": t}),
    };
    let params: Vec<Value> = k
        .params
        .iter()
        .map(|(l, v)| {
            let v = match v.as_bytes() {
                Some(b) => json!({"b": hex(b)}),
                None => json!({"o": true}),
            };
            json!([label_json(l), v])
        })
        .collect();
    json!({"kty": kty, "alg": alg, "params": params})
}

fn key_from_json(d: &Value) -> CoseKey {
    let kty = match (d["kty"].get("i"), d["kty"].get("t")) {
        (Some(i), _) => RegisteredLabel::Assigned(iana::KeyType::from_i64(i.as_i64().unwrap()).expect("harness: registered kty")),
        (_, Some(t)) => RegisteredLabel::Text(t.as_str().unwrap().to_owned()),
        _ => panic!("harness: kty"),
    };
    let alg = if d["alg"].is_null() {
        None
    } else if let Some(i) = d["alg"].get("i") {
        Some(RegisteredLabelWithPrivate::Assigned(iana::Algorithm::from_i64(i.as_i64().unwrap()).expect("harness: registered alg")))
    } else if let Some(i) = d["alg"].get("p") {
        Some(RegisteredLabelWithPrivate::PrivateUse(i.as_i64().unwrap()))
    } else {
        Some(RegisteredLabelWithPrivate::Text(d["alg"]["t"].as_str().unwrap().to_owned()))
    };
    let params = d["params"]
        .as_array()
        .expect("harness: params")
        .iter()
        .map(|p| {
            let l = match (p[0].get("i"), p[0].get("t")) {
                (Some(i), _) => Label::Int(i.as_i64().unwrap()),
                (_, Some(t)) => Label::Text(t.as_str().unwrap().to_owned()),
                _ => panic!("harness: label"),
            };
            let v = if let Some(b) = p[1].get("b") {
                ciborium::Value::Bytes(unhex(b.as_str().unwrap()))
            } else if let Some(i) = p[1].get("n") {
                ciborium::Value::from(i.as_i64().unwrap())
            } else if let Some(t) = p[1].get("t") {
                ciborium::Value::Text(t.as_str().unwrap().to_owned())
            } else {
                ciborium::Value::Null
            };
            (l, v)
        })
        .collect();
    CoseKey { kty, alg, params, ..Default::default() }
}

fn cose_to_der(case: &Value) -> Value {
    // decoding the key (coset, third party) and converting it are measured separately
    let key = if case.get("key").is_some() {
        key_from_json(&case["key"])
    } else {
        let b = get_hex(case, "hex");
        let mut decoded = None;
        let m = measured(
            || CoseKey::from_slice(&b),
            |r| match r {
                Ok(k) => {
                    decoded = Some(k.clone());
                    (true, Value::Null)
                }
                Err(_) => (false, json!({"stage": "decode"})),
            },
        );
        match decoded {
            Some(k) => k,
            None => return m,
        }
    };
    let kj = key_json(&key);
    let mut m = measured(
        || passkey_authenticator::public_key_der_from_cose_key(&key),
        |r| match r {
            Ok(der) => (true, json!({"der": hex(der)})),
            Err(e) => (false, json!({"err": format!("{e:?}")})),
        },
    );
    m["detail"]["key"] = kj;
    m
}

// ---------------------------------------------------------------------------------------------
// valid encodings of every message type, produced by the real encoders

const GX: &str = "6b17d1f2e12c4247f8bce6e563a440f277037d812deb33a0f4a13945d898c296";
const GY: &str = "4fe342e2fe1a7f9b8ee7eb4a7c0f9e162bce33576b315ececbb6406837bf51f5";

fn to_cbor<T: serde::Serialize>(t: &T) -> String {
    let mut out = Vec::new();
    ciborium::ser::into_writer(t, &mut out).expect("harness: sample serialises");
    hex(&out)
}

fn sample_key() -> CoseKey {
    coset::CoseKeyBuilder::new_ec2_pub_key(iana::EllipticCurve::P_256, unhex(GX), unhex(GY))
        .algorithm(iana::Algorithm::ES256)
        .build()
}

fn sample_descriptor(n: u8, transports: Option<Vec<AuthenticatorTransport>>) -> PublicKeyCredentialDescriptor {
    PublicKeyCredentialDescriptor { ty: PublicKeyCredentialType::PublicKey, id: vec![n; 16].into(), transports }
}

fn samples() -> Value {
    let user = || webauthn::PublicKeyCredentialUserEntity {
        id: vec![9u8; 12].into(),
        display_name: "Alice Example".into(),
        name: "alice@example.com".into(),
    };
    let auth_data_plain = || AuthenticatorData::new("example.com", Some(7)).set_flags(Flags::UP | Flags::UV);
    let auth_data_at = || {
        AuthenticatorData::new("example.com", Some(0))
            .set_flags(Flags::UP)
            .set_attested_credential_data(AttestedCredentialData::new(Aaguid::new_empty(), vec![3u8; 16], sample_key()).unwrap())
    };
    let mc_req = make_credential::Request {
        client_data_hash: vec![1u8; 32].into(),
        rp: make_credential::PublicKeyCredentialRpEntity { id: "example.com".into(), name: Some("Example".into()) },
        user: user(),
        pub_key_cred_params: vec![
            webauthn::PublicKeyCredentialParameters { ty: PublicKeyCredentialType::PublicKey, alg: iana::Algorithm::ES256 },
            webauthn::PublicKeyCredentialParameters { ty: PublicKeyCredentialType::PublicKey, alg: iana::Algorithm::RS256 },
        ],
        exclude_list: Some(vec![
            sample_descriptor(4, Some(vec![AuthenticatorTransport::Usb, AuthenticatorTransport::Internal])),
            sample_descriptor(5, None),
        ]),
        extensions: Some(make_credential::ExtensionInputs { hmac_secret: Some(true), hmac_secret_mc: None, prf: None }),
        options: make_credential::Options { rk: true, up: true, uv: true },
        pin_auth: Some(vec![2u8; 16].into()),
        pin_protocol: Some(1),
    };
    let ga_req = get_assertion::Request {
        rp_id: "example.com".into(),
        client_data_hash: vec![1u8; 32].into(),
        allow_list: Some(vec![sample_descriptor(6, Some(vec![AuthenticatorTransport::Nfc, AuthenticatorTransport::Hybrid]))]),
        extensions: None,
        options: make_credential::Options { rk: false, up: true, uv: false },
        pin_auth: None,
        pin_protocol: None,
    };
    let gi_resp = get_info::Response {
        versions: vec![get_info::Version::FIDO_2_0, get_info::Version::U2F_V2],
        extensions: Some(vec![get_info::Extension::HmacSecret, get_info::Extension::Prf]),
        aaguid: Aaguid::new_empty(),
        options: Some(get_info::Options { plat: true, rk: true, client_pin: Some(false), up: true, uv: Some(true) }),
        max_msg_size: std::num::NonZeroU128::new(1200),
        pin_protocols: Some(vec![1, 2]),
        transports: Some(vec![AuthenticatorTransport::Internal, AuthenticatorTransport::Hybrid, AuthenticatorTransport::Usb]),
    };
    let mc_resp = make_credential::Response {
        fmt: "none".into(),
        auth_data: auth_data_at(),
        att_stmt: ciborium::Value::Map(vec![]),
        ep_att: None,
        large_blob_key: None,
        unsigned_extension_outputs: None,
    };
    let ga_resp = get_assertion::Response {
        credential: Some(sample_descriptor(7, None)),
        auth_data: auth_data_plain(),
        signature: vec![0x30u8; 70].into(),
        user: Some(user()),
        number_of_credentials: Some(1),
        user_selected: None,
        large_blob_key: None,
        unsigned_extension_outputs: None,
    };
    json!({
        "cbor_make_credential_request": to_cbor(&mc_req),
        "cbor_get_assertion_request": to_cbor(&ga_req),
        "cbor_get_info_response": to_cbor(&gi_resp),
        "cbor_make_credential_response": to_cbor(&mc_resp),
        "cbor_get_assertion_response": to_cbor(&ga_resp),
        "cbor_descriptor": to_cbor(&sample_descriptor(8, Some(vec![AuthenticatorTransport::Usb, AuthenticatorTransport::Ble]))),
        "authdata": [hex(&auth_data_plain().to_vec()), hex(&auth_data_at().to_vec())],
        "cose_to_der": hex(&sample_key().to_vec().expect("harness: sample key serialises")),
    })
}

// ---------------------------------------------------------------------------------------------

fn run_case(case: &Value) -> Value {
    ON.store(false, Relaxed);
    CASE_START.store(0, Relaxed);
    let op = case["op"].as_str().expect("op");
    match op {
        "samples" => samples(),

        // ---- CTAP2 CBOR messages: ciborium::de::from_reader::<T>
        "cbor_make_credential_request" => cbor_as::<make_credential::Request>(&get_hex(case, "hex")),
        "cbor_get_assertion_request" => cbor_as::<get_assertion::Request>(&get_hex(case, "hex")),
        "cbor_get_info_response" => cbor_as::<get_info::Response>(&get_hex(case, "hex")),
        "cbor_make_credential_response" => cbor_as::<make_credential::Response>(&get_hex(case, "hex")),
        "cbor_get_assertion_response" => cbor_as::<get_assertion::Response>(&get_hex(case, "hex")),

        // ---- the generic value layer (what Lib/Cbor.v models): accept / reject
        "cbor_value" => cbor_as::<ciborium::Value>(&get_hex(case, "hex")),

        // ---- the repo's own visitors in isolation (modelled in Wire/Robust.v)
        // Bytes through CBOR: byte string, base64 text, array of numbers
        "cbor_bytes" => {
            let b = get_hex(case, "hex");
            measured(|| ciborium::de::from_reader::<Bytes, _>(b.as_slice()), bytes_detail)
        }
        // Bytes through JSON: base64 string or array of numbers
        "json_bytes" => {
            let b = get_hex(case, "hex");
            measured(|| serde_json::from_slice::<Bytes>(b.as_slice()), bytes_detail)
        }
        // a credential descriptor: its transports list is `ignore_unknown_opt_vec`
        "cbor_descriptor" => {
            let b = get_hex(case, "hex");
            measured(|| ciborium::de::from_reader::<PublicKeyCredentialDescriptor, _>(b.as_slice()), descriptor_detail)
        }
        "json_descriptor" => {
            let b = get_hex(case, "hex");
            measured(|| serde_json::from_slice::<PublicKeyCredentialDescriptor>(b.as_slice()), descriptor_detail)
        }

        // ---- authenticator data
        "authdata" => {
            let b = get_hex(case, "hex");
            measured(|| AuthenticatorData::from_slice(&b), classify)
        }

        // ---- WebAuthn JSON
        "json_creation_options" => json_as::<PublicKeyCredentialCreationOptions>(&get_hex(case, "hex")),
        "json_request_options" => json_as::<PublicKeyCredentialRequestOptions>(&get_hex(case, "hex")),
        "json_client_data" => json_as::<CollectedClientData>(&get_hex(case, "hex")),

        // ---- base64 fields
        "bytes_from_str" => {
            let s = input_string(case);
            measured(|| Bytes::try_from(s.as_str()), bytes_detail)
        }

        // ---- U2F raw request
        "u2f_request" => {
            let b = get_hex(case, "hex");
            measured(|| u2f::Request::try_from(b.as_slice()), classify)
        }

        // ---- CTAPHID packets of any length in any order, one fresh handler per case
        "hid_packets" => {
            let packets: Vec<Vec<u8>> = case["packets"].as_array().expect("packets").iter().map(|p| unhex(p.as_str().unwrap())).collect();
            measured(
                || {
                    let mut h = ChannelHandler::default();
                    let outs: Vec<_> = packets.iter().map(|p| h.handle_packet(p)).collect();
                    (h, outs)
                },
                |(_, outs)| {
                    let outs: Vec<Value> = outs
                        .iter()
                        .map(|o| match o {
                            None => Value::Null,
                            Some(m) => json!({"ch": m.channel, "cmd": m.command.encode() & 0x7f, "payload": hex(&m.payload)}),
                        })
                        .collect();
                    (true, json!({"outs": outs}))
                },
            )
        }

        // ---- COSE key -> SubjectPublicKeyInfo DER
        "cose_to_der" => cose_to_der(case),

        // ---- Android certificate fingerprint
        "fingerprint" => {
            let s = input_string(case);
            measured(
                || valid_fingerprint(&s),
                |r| match r {
                    Ok(v) => (true, json!({"bytes": hex(v)})),
                    Err(ValidationError::ParseFailed(_)) => (false, json!({"err": "parse"})),
                    Err(ValidationError::InvalidLength) => (false, json!({"err": "length"})),
                    Err(ValidationError::InvalidAssetLinkUrl) => (false, json!({"err": "url"})),
                },
            )
        }
        // the same through the public constructor (fingerprint + host + asset link url)
        "asset_link" => {
            let s = input_string(case);
            let host = case["host"].as_str().unwrap_or("example.com").to_owned();
            let url = url::Url::parse("https://example.com/.well-known/assetlinks.json").unwrap();
            measured(|| UnverifiedAssetLink::new("com.example.app", &s, host.as_str(), url), classify)
        }

        // ---- domain names: the three public list lookups
        "psl" => {
            let s = input_string(case);
            measured(
                || {
                    let ps = DEFAULT_PROVIDER.public_suffix(&s).len();
                    let e = DEFAULT_PROVIDER.effective_tld_plus_one(&s).is_ok();
                    let t = DEFAULT_PROVIDER.is_effective_tld(&s);
                    (ps, e, t)
                },
                |(ps, e, t)| (true, json!({"ps_len": ps, "etld1": e, "tld": t})),
            )
        }

        // ---- RP IDs: is_valid_rp_id on the string, assert_domain against an origin
        "rp_id" => {
            let s = input_string(case);
            let origin = url::Url::parse(case["origin"].as_str().unwrap_or("https://www.example.com")).expect("harness: origin url");
            let localhost = case["localhost"].as_bool().unwrap_or(false);
            let o = Origin::Web(std::borrow::Cow::Owned(origin));
            measured(
                || {
                    let v = RpIdVerifier::new(DEFAULT_PROVIDER).allows_insecure_localhost(localhost);
                    let valid = v.is_valid_rp_id(&s);
                    let with = v.assert_domain(&o, Some(&s)).is_ok();
                    (valid, with)
                },
                |(valid, with)| (*valid, json!({"asserted": with})),
            )
        }
        // the origin itself is the untrusted string
        "rp_origin" => {
            let s = input_string(case);
            measured(
                || match url::Url::parse(&s) {
                    Ok(u) => {
                        let v = RpIdVerifier::new(DEFAULT_PROVIDER);
                        let o = Origin::Web(std::borrow::Cow::Owned(u));
                        Ok(v.assert_domain(&o, None).is_ok())
                    }
                    Err(_) => Err(()),
                },
                |r| match r {
                    Ok(b) => (*b, Value::Null),
                    Err(()) => (false, json!({"stage": "url"})),
                },
            )
        }
        other => panic!("unknown robust op {other}"),
    }
}

fn main() {
    start_watchdog();
    // every case runs on a thread with Rust's default thread stack (2 MiB): a decoder whose recursion depth grows
    // with the input overflows it on inputs of a few hundred kilobytes (the process dies; the driver isolates the input)
    pkharness::run_domain(|case| {
        let case = case.clone();
        std::thread::Builder::new()
            .stack_size(2 << 20)
            .spawn(move || run_case(&case))
            .expect("spawn")
            .join()
            .unwrap_or_else(|_| serde_json::json!({"panic": true, "msg": "worker thread panicked outside the guarded call"}))
    });
}
