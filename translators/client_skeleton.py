#!/usr/bin/env python3
"""Translator: the WebAuthn client ceremonies and the RP ID verifier of passkey-client/src/lib.rs
-> coq/theories/Auth/gen/ClientSkeleton.v

Same idea as ceremony_skeleton.py one level up: for Client::register, Client::authenticate and the functions of
RpIdVerifier it extracts, from the function body as it is in the source now (comments, string literals and the test
module removed), the ORDER in which the body mentions the calls into the authenticator, the RP ID check, the client
data serialisation and hash, the extension translation, the `Options { rk, up: true, uv }` literal and the error
returns.  Auth/ClientSkeletonFacts.v states (1) that these lists equal the order the client model was written from
and (2) that every run of the model's client ceremonies performs its effects in that order, with the authenticator
ceremonies expanded to THEIR source skeleton (Auth/gen/Skeleton.v)."""
import re, sys

MARKS = [
    ("AuthGetInfo",   r"authenticator\s*(?:\(\s*\)\s*)?\.\s*get_info\s*\(\s*\)"),
    ("StoreInfo",     r"\.\s*store\s*\(\s*\)\s*\.\s*get_info\s*\(\s*\)"),
    ("AssertDomain",  r"\.\s*assert_domain\s*\("),
    ("AssertWeb",     r"\.\s*assert_web_rp_id\s*\("),
    ("AssertAndroid", r"\.\s*assert_android_rp_id\s*\("),
    ("AssertValid",   r"\.\s*assert_valid_rp_id\s*\("),
    ("IsRegistrable", r"\.\s*is_registrable\s*\("),
    ("SuffixAtLabel", r"is_suffix_at_label_boundary\s*\("),
    ("OriginDomain",  r"\.\s*domain\s*\(\s*\)"),
    ("Scheme",        r"\.\s*scheme\s*\(\s*\)"),
    ("DecodeHost",    r"decode_host\s*\("),
    ("ToAscii",       r"domain_to_ascii\s*\("),
    ("Etld1",         r"\.\s*effective_tld_plus_one\s*\("),
    ("AllowsLocalhost", r"self\s*\.\s*allows_insecure_localhost\b(?!\s*\()"),
    ("TypeCreate",    r"ClientDataType::Create\b"),
    ("TypeGet",       r"ClientDataType::Get\b"),
    ("ExtraData",     r"\.\s*extra_client_data\s*\(\s*\)"),
    ("ClientDataJson", r"serde_json::to_string\s*\("),
    ("ClientDataHash", r"\.\s*client_data_hash\s*\(\s*\)"),
    ("Sha256",        r"\bsha256\s*\("),
    ("ZipContents",   r"\.\s*zip_contents\s*\(\s*\)"),
    ("RegExtIn",      r"\.\s*registration_extension_ctap2_input\s*\("),
    ("AuthExtIn",     r"\.\s*auth_extension_ctap2_input\s*\("),
    ("MapRk",         r"self\s*\.\s*map_rk\s*\("),
    ("MakeCredential", r"\.\s*make_credential\s*\("),
    ("GetAssertion",  r"\.\s*get_assertion\s*\("),
    ("OptionsUpTrue", r"Options\s*\{\s*rk\s*,\s*up\s*:\s*true\s*,\s*uv\s*,?\s*\}"),
    ("OptionsOther",  r"Options\s*\{"),
    ("PinAuthNone",   r"pin_auth\s*:\s*None"),
    ("PubKeyDer",     r"public_key_der_from_cose_key\s*\("),
    ("RegExtOut",     r"\.\s*registration_extension_outputs\s*\("),
    ("AuthExtOut",    r"\.\s*auth_extension_outputs\s*\("),
    ("IntoWebauthnError", r"Into\s*::\s*<\s*WebauthnError\s*>\s*::\s*into"),
    ("Err",           r"WebauthnError::(\w+)"),
    ("Str",           r'"([^"]*)"'),
]
MASTER = re.compile("|".join("(?P<m%d>%s)" % (i, pat) for i, (_, pat) in enumerate(MARKS)))


def strip(src):
    """remove comments; keep string literals, reduced to their letters, digits and . : / _ - (so braces and quotes
    inside them cannot disturb the brace matching and the constants a body compares with stay visible)"""
    out, i, n = [], 0, len(src)
    while i < n:
        c = src[i]
        if src.startswith("//", i):
            j = src.find("\n", i)
            i = n if j < 0 else j
        elif src.startswith("/*", i):
            j = src.find("*/", i + 2)
            i = n if j < 0 else j + 2
        elif c == '"':
            j, lit = i + 1, []
            while j < n and src[j] != '"':
                if src[j] == "\\":
                    j += 1
                elif src[j].isalnum() or src[j] in ".:/_-":
                    lit.append(src[j])
                j += 1
            out.append('"' + "".join(lit) + '"')
            i = j + 1
        elif c == "'" and i + 2 < n and (src[i + 2] == "'" or (src[i + 1] == "\\" and i + 3 < n and src[i + 3] == "'")):
            i += 3 if src[i + 2] == "'" else 4       # a char literal
            out.append("' '")
        else:
            out.append(c)
            i += 1
    return "".join(out)


def body_of(src, header_pat, what):
    m = re.search(header_pat, src, flags=re.S)
    if not m:
        raise SystemExit("client_skeleton translator: cannot find " + what)
    i = m.end() - 1
    depth, j = 0, i
    while j < len(src):
        if src[j] == "{": depth += 1
        elif src[j] == "}":
            depth -= 1
            if depth == 0:
                return src[i:j + 1]
        j += 1
    raise SystemExit("client_skeleton translator: unbalanced braces in " + what)


def marks(body):
    out = []
    for m in MASTER.finditer(body):
        for i, (name, _) in enumerate(MARKS):
            if m.group("m%d" % i) is not None:
                if name == "Err":
                    out.append("Err " + re.search(r"WebauthnError::(\w+)", m.group(0)).group(1))
                elif name == "Str":
                    out.append("Str " + m.group(0).strip('"'))
                else:
                    out.append(name)
                break
    return out


# a function header up to the opening brace of its body; generics, arguments, return type and where clause may
# contain anything but a brace
def hdr(name, vis=r"(?:pub\s+)?", asyncness=r"(?:async\s+)?"):
    return vis + asyncness + r"fn\s+" + name + r"\s*(?:<[^{]*?>)?\s*\([^{]*\{"


def main(lib_rs, dst):
    s = strip(open(lib_rs).read())
    # an inline test module (`#[cfg(test)] mod name {`) is not code of the crate; `mod tests;` declarations stay
    mt = re.search(r"#\[cfg\(test\)\]\s*mod\s+\w+\s*\{", s)
    if mt:
        s = s[:mt.start()]
    fns = [
        ("CLIENT_REGISTER", body_of(s, hdr("register"), "Client::register")),
        ("CLIENT_AUTHENTICATE", body_of(s, hdr("authenticate"), "Client::authenticate")),
        ("ASSERT_DOMAIN", body_of(s, hdr("assert_domain"), "RpIdVerifier::assert_domain")),
        ("ASSERT_WEB_RP_ID", body_of(s, hdr("assert_web_rp_id"), "RpIdVerifier::assert_web_rp_id")),
        ("ASSERT_VALID_RP_ID", body_of(s, hdr("assert_valid_rp_id"), "RpIdVerifier::assert_valid_rp_id")),
        ("IS_REGISTRABLE", body_of(s, hdr("is_registrable"), "RpIdVerifier::is_registrable")),
        ("IS_VALID_RP_ID", body_of(s, hdr("is_valid_rp_id"), "RpIdVerifier::is_valid_rp_id")),
        ("ASSERT_ANDROID_RP_ID", body_of(s, hdr("assert_android_rp_id"), "RpIdVerifier::assert_android_rp_id")),
    ]
    lines = ["(* GENERATED by translators/client_skeleton.py from passkey-client/src/lib.rs - do not edit *)",
             "From Coq Require Import String List. Import ListNotations. Open Scope string_scope."]
    for name, body in fns:
        ms = marks(body)
        if not ms:
            raise SystemExit("client_skeleton translator: no marks in " + name)
        lines.append("Definition SRC_%s : list string := [%s]." % (name, "; ".join('"%s"' % x for x in ms)))
    text = "\n".join(lines) + "\n"
    try:
        old = open(dst).read()
    except FileNotFoundError:
        old = None
    if old != text:
        open(dst, "w").write(text)


if __name__ == "__main__":
    main(*sys.argv[1:3])
