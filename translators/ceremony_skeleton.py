#!/usr/bin/env python3
"""Translator: the ceremony functions of passkey-authenticator -> coq/theories/Auth/gen/Skeleton.v

For each of check_user, get_info, make_credential, get_assertion and the two U2F operations it extracts, from the
function body as it is in the source now (comments, strings and the #[cfg(test)] module removed), the ORDER in which
the body mentions the calls into the two user-supplied traits, the randomness / key / signature primitives, the
helper ceremonies and the error returns.  The result is a list of marks per function.  Auth/SkeletonFacts.v states
(1) these lists equal the order the model was written from, and (2) the model performs its effects in that order
on a run that takes every branch - so a reordering in the source (e.g. the exclude-list lookup moved before the user
check, the save moved before a fallible step) breaks a proof obligation on the next run."""
import re, sys

MARKS = [
    ("CheckUser",     r"self\s*\.\s*check_user\s*\("),
    ("UvCheck",       r"user_validation\s*\.\s*check_user\s*\("),
    ("VerifEnabled",  r"is_verification_enabled\s*\(\s*\)"),
    ("PresenceEnabled", r"is_presence_enabled\s*\(\s*\)"),
    ("Find",          r"\.\s*find_credentials\s*\("),
    ("GetInfo",       r"self\s*\.\s*get_info\s*\(\s*\)"),
    ("StoreInfo",     r"(?:\.\s*store\s*|\.\s*store\s*\(\s*\)\s*)\.\s*get_info\s*\(\s*\)"),
    ("Save",          r"\.\s*save_credential\s*\("),
    ("Update",        r"\.\s*update_credential\s*\("),
    ("Rand",          r"random_vec\s*\("),
    ("KeyGen",        r"SecretKey::random\s*\("),
    ("MakeExt",       r"\.\s*make_extensions\s*\("),
    ("GetExt",        r"\.\s*get_extensions\s*\("),
    ("ChooseAlg",     r"\.\s*choose_algorithm\s*\("),
    ("PrivKey",       r"private_key_from_cose_key\s*\("),
    ("Sign",          r"\.\s*sign\s*\("),
    ("PinAuth",       r"pin_auth\s*\.\s*is_some\s*\(\s*\)"),
    # extensions/hmac_secret.rs: where the per-credential secrets come from and what is computed with them
    ("Hmac",          r"\bhmac_sha256\s*\("),
    ("Sha256",        r"\bsha256\s*\("),
    ("CalcHmac",      r"\bcalculate_hmac_secret\s*\("),
    ("SelectSalts",   r"\bselect_salts\s*\("),
    ("CredWithUv",    r"\bcred_with_uv\b"),
    ("CredWithoutUv", r"\bcred_without_uv\b"),
    ("WithoutUvCfg",  r"\.\s*without_uv\s*\(\s*\)"),
    ("SupportsNoUv",  r"\.\s*supports_no_uv\s*\(\s*\)"),
    ("OnMcCfg",       r"\bon_make_credential_support\b"),
    ("EvalByCred",    r"\beval_by_credential\b"),
    # counters: the one place a counter is advanced, how it starts, and where the authenticator data (which reports it) is built
    ("SatAdd1",       r"\.\s*saturating_add\s*\(\s*1\s*\)"),
    ("Arith",         r"\.\s*(?:wrapping|checked|overflowing|saturating)_(?:add|sub|mul)\s*\(|\+=|-=|[\w\)]\s*\+\s*[\w\(]|[\w\)]\s+-\s+[\w\(]"),
    ("CounterStart0", r"\.\s*then_some\s*\(\s*0\s*\)"),
    ("NewAuthData",   r"AuthenticatorData::new\s*\("),
    ("Err",           r"(?:Err\s*\(|ok_or\s*\(|map_err\s*\(\s*\|_\|\s*)\s*(?:Ctap2Error|U2FError)::(\w+)"),
]
MASTER = re.compile("|".join("(?P<m%d>%s)" % (i, pat) for i, (_, pat) in enumerate(MARKS)))


def strip(src):
    """remove comments and string literals (keeps offsets irrelevant)"""
    src = re.sub(r"//[^\n]*", "", src)
    src = re.sub(r"/\*.*?\*/", "", src, flags=re.S)
    src = re.sub(r'"(?:\\.|[^"\\])*"', '""', src)
    return src


def body_of(src, header_pat, what):
    m = re.search(header_pat, src)
    if not m:
        raise SystemExit("ceremony_skeleton translator: cannot find " + what)
    i = src.index("{", m.end() - 1) if src[m.end() - 1] != "{" else m.end() - 1
    depth, j = 0, i
    while j < len(src):
        if src[j] == "{": depth += 1
        elif src[j] == "}":
            depth -= 1
            if depth == 0:
                return src[i:j + 1]
        j += 1
    raise SystemExit("ceremony_skeleton translator: unbalanced braces in " + what)


def marks(body):
    out = []
    for m in MASTER.finditer(body):
        for i, (name, _) in enumerate(MARKS):
            if m.group("m%d" % i) is not None:
                if name == "Err":
                    # the error name is the last capturing group of this alternative
                    err = re.search(r"(?:Ctap2Error|U2FError)::(\w+)", m.group(0)).group(1)
                    out.append("Err " + err)
                else:
                    out.append(name)
                break
    return out


def main(authenticator_rs, get_info_rs, make_credential_rs, get_assertion_rs, u2f_rs, hmac_secret_rs, dst):
    def load(p):
        s = strip(open(p).read())
        k = s.find("#[cfg(test)]")
        return s if k < 0 else s[:k]
    a, gi, mc, ga, u2f, hs = (load(p) for p in (authenticator_rs, get_info_rs, make_credential_rs, get_assertion_rs, u2f_rs, hmac_secret_rs))
    mi = re.search(r"impl<[^{]*>\s*U2fApi\s+for\s+Authenticator", u2f)
    if not mi:
        raise SystemExit("ceremony_skeleton translator: cannot find the U2fApi impl")
    u2f_impl = u2f[mi.start():]
    fns = [
        ("CHECK_USER", body_of(a, r"async fn check_user\s*\([^{]*\{", "Authenticator::check_user")),
        ("GET_INFO", body_of(gi, r"pub async fn get_info\s*\([^{]*\{", "Authenticator::get_info")),
        ("MAKE_CREDENTIAL", body_of(mc, r"pub async fn make_credential\s*\([^{]*\{", "Authenticator::make_credential")),
        ("GET_ASSERTION", body_of(ga, r"pub async fn get_assertion\s*\([^{]*\{", "Authenticator::get_assertion")),
        ("U2F_REGISTER", body_of(u2f_impl, r"async fn register\s*\([^{;]*\{", "U2fApi::register (impl)")),
        ("U2F_AUTHENTICATE", body_of(u2f_impl, r"async fn authenticate\s*\([^{;]*\{", "U2fApi::authenticate (impl)")),
        ("MAKE_HMAC_SECRET", body_of(hs, r"fn make_hmac_secret\s*\([^{]*\{", "make_hmac_secret")),
        ("MAKE_PRF", body_of(hs, r"fn make_prf\s*\([^{]*\{", "make_prf")),
        ("GET_PRF", body_of(hs, r"fn get_prf\s*\([^{]*\{", "get_prf")),
        ("CALCULATE_HMAC_SECRET", body_of(hs, r"fn calculate_hmac_secret\s*\([^{]*\{", "calculate_hmac_secret")),
        ("SELECT_SALTS", body_of(hs, r"fn select_salts\s*\([^{]*\{", "select_salts")),
    ]
    lines = ["(* GENERATED by translators/ceremony_skeleton.py from passkey-authenticator/src - do not edit *)",
             "From Coq Require Import String List. Import ListNotations. Open Scope string_scope."]
    for name, body in fns:
        ms = marks(body)
        if not ms:
            raise SystemExit("ceremony_skeleton translator: no marks in " + name)
        lines.append("Definition SRC_%s : list string := [%s]." % (name, "; ".join('"%s"' % x for x in ms)))
    text = "\n".join(lines) + "\n"
    try:
        old = open(dst).read()
    except FileNotFoundError:
        old = None
    if old != text:
        open(dst, "w").write(text)


if __name__ == "__main__":
    main(*sys.argv[1:8])
