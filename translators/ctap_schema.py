#!/usr/bin/env python3
"""Translator: passkey-types/src/**  ->  coq/theories/Wire/gen/CtapSchema.v

For every `serde_workaround!` struct (the integer-keyed CTAP2 messages) the ordered list of
fields with: integer discriminant, Rust field identifier, the text key the macro's key visitor
also accepts (strum `serialize_all = "camelCase"` of the identifier), `default`,
`skip_serializing_if`, `deserialize_with`, and the *kind* of the field type.  Kinds of nested
`#[derive(Serialize, Deserialize)]` structs and enums are resolved recursively from their
definitions (serde attributes rename / rename_all / default / default = "fn" /
skip_serializing_if / deserialize_with / with / alias / untagged), `impl Default` bodies and
`default = "fn"` functions are read for default values.

Anything this script does not recognise is a hard error (SystemExit): a silently wrong schema
would make the theorems talk about something else than the code."""
import glob, os, re, sys


def fail(msg):
    raise SystemExit("ctap_schema translator: " + msg)


# ------------------------------------------------------------------------------------------
# lexical helpers

def strip_comments(s):
    s = re.sub(r"/\*.*?\*/", "", s, flags=re.S)
    out = []
    for line in s.split("\n"):
        # no string literal in the parsed regions contains "//" except URLs inside doc comments,
        # which are removed here as part of the comment
        i = line.find("//")
        if i >= 0:
            q = line[:i].count('"')
            if q % 2 == 0:
                line = line[:i]
        out.append(line)
    return "\n".join(out)


def strip_test_modules(s):
    """drop `#[cfg(test)] mod name { ... }` (their `use super::..` lines would shadow the real imports)"""
    while True:
        m = re.search(r"#\[cfg\(test\)\]\s*(?:pub\s+)?mod\s+\w+\s*\{", s)
        if not m:
            return s
        j = balanced(s, m.end() - 1, "{", "}")
        s = s[:m.start()] + s[j:]


def balanced(s, i, open_c, close_c):
    """s[i] == open_c; returns index just after the matching close_c"""
    assert s[i] == open_c, (s[i:i + 20], open_c)
    depth = 0
    j = i
    while j < len(s):
        c = s[j]
        if c == '"':
            j += 1
            while s[j] != '"':
                j += 2 if s[j] == "\\" else 1
        elif c == open_c:
            depth += 1
        elif c == close_c:
            depth -= 1
            if depth == 0:
                return j + 1
        j += 1
    fail("unbalanced %s%s" % (open_c, close_c))


def split_top(s, sep=","):
    """split at separators that are outside (), <>, [], {} and string literals"""
    parts, depth, cur, j = [], 0, [], 0
    while j < len(s):
        c = s[j]
        if c == '"':
            k = j + 1
            while s[k] != '"':
                k += 2 if s[k] == "\\" else 1
            cur.append(s[j:k + 1]); j = k + 1
            continue
        if c in "(<[{":
            depth += 1
        elif c in ")>]}":
            depth -= 1
        if c == sep and depth == 0:
            parts.append("".join(cur)); cur = []
        else:
            cur.append(c)
        j += 1
    if "".join(cur).strip():
        parts.append("".join(cur))
    return [p.strip() for p in parts]


def parse_attr_args(body):
    """`rename = 0x01, default, skip_serializing_if = Option::is_none` -> dict"""
    d = {}
    for part in split_top(body):
        if not part:
            continue
        m = re.fullmatch(r"(\w+)\s*(?:=\s*(.+))?", part, re.S)
        if not m:
            fail("cannot parse serde attribute argument %r" % part)
        k, v = m.group(1), m.group(2)
        if v is not None:
            v = v.strip()
            if v.startswith('"') and v.endswith('"'):
                v = v[1:-1]
        if k in d:
            fail("repeated serde attribute %s" % k)
        d[k] = True if v is None else v
    return d


def take_attrs(s, i):
    """collect consecutive #[...] attributes starting at s[i:]; returns (list of inner texts, index)"""
    attrs = []
    while True:
        while i < len(s) and s[i].isspace():
            i += 1
        if s.startswith("#[", i):
            j = balanced(s, i + 1, "[", "]")
            attrs.append(s[i + 2:j - 1].strip())
            i = j
        else:
            return attrs, i


def serde_args(attrs):
    d = {}
    for a in attrs:
        m = re.fullmatch(r"serde\s*\((.*)\)", a, re.S)
        if m:
            for k, v in parse_attr_args(m.group(1)).items():
                if k in d:
                    fail("repeated serde attribute %s" % k)
                d[k] = v
    return d


def parse_fields(body, where):
    """struct body -> [(attrs dict, ident, type string)]"""
    fields, i = [], 0
    while True:
        attrs, i = take_attrs(body, i)
        rest = body[i:]
        if not rest.strip():
            if attrs:
                fail("dangling attributes in " + where)
            return fields
        m = re.match(r"\s*(?:pub(?:\([^)]*\))?\s+)?(\w+)\s*:\s*", rest)
        if not m:
            fail("cannot parse a field of %s near %r" % (where, rest[:60]))
        ident = m.group(1)
        j = i + m.end()
        # the type runs to the next top-level comma
        depth, k = 0, j
        while k < len(body):
            c = body[k]
            if c in "(<[{":
                depth += 1
            elif c in ")>]}":
                depth -= 1
            elif c == "," and depth == 0:
                break
            k += 1
        ty = re.sub(r"\s+", " ", body[j:k].strip())
        fields.append((serde_args(attrs), attrs, ident, ty))
        i = k + 1


# ------------------------------------------------------------------------------------------
# source model

class Src:
    def __init__(self, root):
        self.root = root
        self.files = {}
        for p in sorted(glob.glob(os.path.join(root, "**", "*.rs"), recursive=True)):
            self.files[os.path.relpath(p, root)] = strip_test_modules(strip_comments(open(p).read()))
        if not self.files:
            fail("no Rust sources under " + root)

    def module_files(self, segs, cur):
        """files that may define an item imported through the path segments `segs`"""
        pick = None
        for s in segs:
            if s in ("webauthn", "make_credential", "get_assertion", "get_info", "extensions", "ctap2", "super"):
                pick = s
        curdir = os.path.dirname(cur)
        if pick == "webauthn":
            return [f for f in self.files if f.startswith("webauthn/")]
        if pick in ("make_credential", "get_assertion", "get_info"):
            return ["ctap2/%s.rs" % pick]
        if pick == "extensions":
            return [f for f in self.files if f.startswith("ctap2/extensions/")]
        if pick == "ctap2":
            return [f for f in self.files if f.startswith("ctap2/") and f.count("/") == 1]
        if pick == "super":
            up = os.path.dirname(curdir) if os.path.basename(cur) == "mod.rs" else curdir
            return [f for f in self.files if os.path.dirname(f) == up]
        return None

    def uses(self, f):
        """ident -> path segments, from the `use` declarations of file f"""
        out = {}
        for m in re.finditer(r"(?:^|\n)\s*(?:pub\s+)?use\s+([^;]+);", self.files[f]):
            def walk(prefix, tree):
                tree = tree.strip()
                m2 = re.match(r"^([\w:]*?)(?:::)?\{(.*)\}$", tree, re.S)
                if m2 and tree.endswith("}") and "{" in tree:
                    head = tree[:tree.index("{")].rstrip(":")
                    inner = tree[tree.index("{") + 1:-1]
                    for part in split_top(inner):
                        walk(prefix + [x for x in head.split("::") if x], part)
                else:
                    segs = prefix + [x for x in re.split(r"::", tree) if x]
                    name = segs[-1]
                    m3 = re.match(r"(\w+)\s+as\s+(\w+)", name)
                    if m3:
                        segs[-1], name = m3.group(1), m3.group(2)
                    out[name] = segs
            walk([], m.group(1))
        return out

    def find_item(self, name, files):
        hits = []
        for f in files:
            for m in re.finditer(r"\bpub\s+(struct|enum)\s+%s\b" % re.escape(name), self.files[f]):
                hits.append((f, m.group(1), m.start()))
        return hits

    def resolve(self, path, cur):
        """`webauthn::PublicKeyCredentialUserEntity` used in file cur -> (file, 'struct'|'enum', offset)"""
        segs = path.split("::")
        name = segs[-1]
        cands = None
        if len(segs) > 1:
            cands = self.module_files(segs[:-1], cur)
            if cands is None:
                # the first segment may itself be imported (e.g. `webauthn` via `use crate::webauthn`)
                u = self.uses(cur).get(segs[0])
                if u:
                    cands = self.module_files(u + segs[1:-1], cur)
        else:
            if self.find_item(name, [cur]):
                cands = [cur]
            else:
                u = self.uses(cur).get(name)
                if u:
                    cands = self.module_files(u[:-1], cur)
                    name = u[-1]
        if not cands:
            fail("cannot resolve type %s used in %s" % (path, cur))
        hits = self.find_item(name, cands)
        if len(hits) != 1:
            # a re-export (`pub use other::Name`) in the candidate module
            for f in cands:
                u = self.uses(f).get(name)
                if u and not self.find_item(name, [f]):
                    c2 = self.module_files(u[:-1], f)
                    if c2:
                        hits = self.find_item(u[-1], c2)
                        if len(hits) == 1:
                            break
        if len(hits) != 1:
            fail("type %s used in %s resolves to %d definitions" % (path, cur, len(hits)))
        return hits[0]


def camel_of_snake(ident):
    if not re.fullmatch(r"[a-z]+(_[a-z]+)*", ident):
        fail("field identifier %r is not plain lower snake_case (camelCase conversion not modelled)" % ident)
    w = ident.split("_")
    return w[0] + "".join(x.capitalize() for x in w[1:])


def words_of_pascal(ident):
    if not re.fullmatch(r"([A-Z][a-z0-9]*)+", ident):
        fail("variant identifier %r is not PascalCase (rename_all conversion not modelled)" % ident)
    return re.findall(r"[A-Z][a-z0-9]*", ident)


def rename_variant(ident, rule):
    if rule is None:
        return ident
    w = words_of_pascal(ident)
    if rule == "lowercase":
        return "".join(w).lower()
    if rule == "kebab-case":
        return "-".join(x.lower() for x in w)
    if rule == "camelCase":
        return w[0].lower() + "".join(w[1:])
    fail("rename_all = %r on an enum is not modelled" % rule)


def rename_field(ident, rule):
    if rule is None:
        return ident
    if rule == "camelCase":
        return camel_of_snake(ident)
    fail("rename_all = %r on a struct is not modelled" % rule)


# ------------------------------------------------------------------------------------------
# Coq output helpers

def blit(s):
    return "[" + ";".join(str(b) for b in s.encode()) + "]"


def coq_text(s):
    return "CText %s" % blit(s)


class Gen:
    def __init__(self, src):
        self.src = src
        self.defs = []          # (coq name, coq term, comment)
        self.done = {}          # (file, offset) -> coq name
        self.n_fields = 0

    # ---- defaults -------------------------------------------------------------------------
    def literal(self, text, where):
        t = text.strip()
        if t == "true": return "CBool true"
        if t == "false": return "CBool false"
        if t == "None": return None
        m = re.fullmatch(r"(\d+)", t)
        if m: return "CInt %s" % t
        fail("default value %r in %s is not a literal this translator understands" % (t, where))

    def default_fn(self, name, f):
        m = re.search(r"fn\s+%s\s*\(\s*\)\s*->\s*[\w:<>]+\s*\{([^{}]*)\}" % re.escape(name.split("::")[-1]), self.src.files[f])
        if not m:
            fail("cannot find default function %s in %s" % (name, f))
        return self.literal(m.group(1), "fn " + name)

    def struct_default(self, f, name, fields):
        """canonical CBOR of `<name as Default>::default()`; fields = [(attr, key term, kind, is_opt, skip)]"""
        s = self.src.files[f]
        m = re.search(r"impl\s+Default\s+for\s+%s\s*\{\s*fn\s+default\s*\(\s*\)\s*->\s*Self\s*\{\s*Self\s*\{(.*?)\}\s*\}\s*\}" % re.escape(name), s, re.S)
        if not m:
            fail("struct %s (%s) is used with `default` but has no `impl Default` of the expected shape" % (name, f))
        vals = {}
        for part in split_top(m.group(1)):
            m2 = re.fullmatch(r"(\w+)\s*:\s*(.+)", part, re.S)
            if not m2:
                fail("cannot parse %r in impl Default for %s" % (part, name))
            vals[m2.group(1)] = self.literal(m2.group(2), "impl Default for " + name)
        entries = []
        for ident, keyterm, skip in fields:
            if ident not in vals:
                fail("impl Default for %s does not set %s" % (name, ident))
            v = vals[ident]
            if v is None:
                if skip:
                    continue
                v = "CNull"
            entries.append("(%s, %s)" % (keyterm, v))
        return "CMap [%s]" % "; ".join(entries)

    def default_of_type(self, ty, f, where):
        """canonical CBOR term of Default::default() for the type, or None for Rust `None`"""
        ty = ty.strip()
        if ty.startswith("Option<"): return None
        if ty == "bool": return "CBool false"
        if ty in ("u8", "u16", "u32", "u64"): return "CInt 0"
        if ty.startswith("Vec<"): return "CArr []"
        if ty == "String": return "CText []"
        if ty == "Bytes": return "CBytes []"
        if re.fullmatch(r"[\w:]+", ty):
            hit = self.src.resolve(ty, f)
            if hit[1] == "struct":
                _, info = self.named(ty, f)
                return self.struct_default(hit[0], ty.split("::")[-1], info)
        fail("`default` on a field of type %s (%s): default value not modelled" % (ty, where))

    # ---- kinds ----------------------------------------------------------------------------
    def kind_of(self, ty, f, sa, where):
        """(coq kind term, is_option)"""
        ty = ty.strip()
        dw = sa.get("deserialize_with")
        if dw is not None:
            dwn = dw.split("::")[-1]
            if dwn == "ignore_unknown_opt_vec":
                m = re.fullmatch(r"Option<\s*Vec<\s*(.+)\s*>\s*>", ty)
                if not m:
                    fail("ignore_unknown_opt_vec on type %s (%s)" % (ty, where))
                k, _ = self.kind_of(m.group(1), f, {}, where)
                return "KLenientVec (%s)" % k, True
            if dwn == "ignore_unknown":
                k, _ = self.kind_of(ty, f, {}, where)
                d = self.default_of_named_enum(ty, f, where)
                return "KLenient (%s) (%s)" % (k, d), False
            fail("deserialize_with = %s (%s) is not modelled" % (dw, where))
        if "with" in sa:
            if sa["with"].split("::")[-1] == "i64_to_iana" and ty.split("::")[-1] == "Algorithm":
                return "KAlg", False
            fail("with = %s (%s) is not modelled" % (sa["with"], where))
        m = re.fullmatch(r"Option<\s*(.+)\s*>", ty)
        if m:
            k, _ = self.kind_of(m.group(1), f, {}, where)
            return "KOpt (%s)" % k, True
        m = re.fullmatch(r"Vec<\s*(.+)\s*>", ty)
        if m:
            k, _ = self.kind_of(m.group(1), f, {}, where)
            return "KVec (%s)" % k, False
        m = re.fullmatch(r"HashMap<\s*Bytes\s*,\s*(.+)\s*>", ty)
        if m:
            k, _ = self.kind_of(m.group(1), f, {}, where)
            return "KMapBytes (%s)" % k, False
        m = re.fullmatch(r"\[\s*u8\s*;\s*(\d+)\s*\]", ty)
        if m:
            return "KU8Arr %s" % m.group(1), False
        last = ty.split("::")[-1]
        prim = {"Bytes": "KBytes", "String": "KText", "u8": "KUint 255", "bool": "KBool",
                "NonZeroU128": "KNzU128", "AuthenticatorData": "KAuthData", "Aaguid": "KAaguid"}
        if last in prim and (("::" not in ty) or ty in ("crate::Bytes",)):
            # make sure the short names are the crate's own types, not something local
            if last in ("Bytes", "AuthenticatorData", "Aaguid") and self.src.find_item(last, [f]):
                fail("%s is redefined in %s" % (last, f))
            return prim[last], False
        if ty in ("ciborium::value::Value", "ciborium::Value"):
            return "KRaw", False
        if re.fullmatch(r"[\w:]+", ty):
            name, _ = self.named(ty, f)
            return name, False
        fail("type %s (%s) is not modelled" % (ty, where))

    def default_of_named_enum(self, ty, f, where):
        hit = self.src.resolve(ty, f)
        if hit[1] != "enum":
            fail("ignore_unknown on a non-enum %s (%s)" % (ty, where))
        body, attrs = self.item_body(hit)
        ra = serde_args(attrs).get("rename_all")
        i, dflt = 0, None
        while True:
            vattrs, i = take_attrs(body, i)
            m = re.match(r"\s*(\w+)\s*(\([^)]*\))?\s*,?", body[i:])
            if not m or not m.group(1):
                break
            if "default" in vattrs:
                dflt = serde_args(vattrs).get("rename") or rename_variant(m.group(1), ra)
            i += m.end()
        if dflt is None:
            fail("enum %s has no #[default] variant (%s)" % (ty, where))
        return coq_text(dflt)

    def item_body(self, hit):
        f, what, off = hit
        s = self.src.files[f]
        # attributes stand immediately before `pub struct` / `pub enum`
        attrs, k = [], off
        while True:
            k2 = len(s[:k].rstrip())
            if k2 == 0 or s[k2 - 1] != "]":
                break
            depth, j = 0, k2 - 1
            while j >= 0:
                if s[j] == "]":
                    depth += 1
                elif s[j] == "[":
                    depth -= 1
                    if depth == 0:
                        break
                j -= 1
            if j < 1 or s[j - 1] != "#":
                break
            attrs.insert(0, s[j + 1:k2 - 1].strip())
            k = j - 1
        i = s.index("{", off)
        j = balanced(s, i, "{", "}")
        return s[i + 1:j - 1], attrs

    def named(self, ty, f):
        """Coq definition for a named struct/enum; returns (coq name, field info for defaults)"""
        hit = self.src.resolve(ty, f)
        key = (hit[0], hit[2])
        if key in self.done:
            return self.done[key]
        df, what, _ = hit
        name = ty.split("::")[-1]
        body, attrs = self.item_body(hit)
        derives = " ".join(a for a in attrs if a.startswith("derive"))
        if "Serialize" not in derives or "Deserialize" not in derives:
            # integer-keyed structs are generated by the macro
            if not self.in_workaround(hit):
                fail("%s (%s) does not derive Serialize and Deserialize" % (name, df))
        cname = "K_%s_%s" % (re.sub(r"\W", "_", df[:-3]), name)
        csa = serde_args(attrs)
        for k in csa:
            if k not in ("rename_all",):
                fail("container attribute serde(%s) on %s is not modelled" % (k, name))
        ra = csa.get("rename_all")
        if what == "enum":
            vs, other, i = [], False, 0
            while True:
                vattrs, i = take_attrs(body, i)
                m = re.match(r"\s*(\w+)\s*(\(\s*String\s*\))?\s*(,|$)", body[i:])
                if not m:
                    if body[i:].strip():
                        fail("enum %s: variant shape not modelled near %r" % (name, body[i:i + 40]))
                    break
                i += m.end()
                va = serde_args(vattrs)
                for k in va:
                    if k not in ("rename", "alias", "untagged"):
                        fail("variant attribute serde(%s) on %s::%s is not modelled" % (k, name, m.group(1)))
                if m.group(2):
                    if not va.get("untagged"):
                        fail("enum %s: newtype variant %s without #[serde(untagged)] is not modelled" % (name, m.group(1)))
                    other = True
                    continue
                if va.get("untagged"):
                    fail("enum %s: untagged unit variant is not modelled" % name)
                nm = va.get("rename") or rename_variant(m.group(1), ra)
                al = [va["alias"]] if "alias" in va else []
                vs.append("(%s, [%s])" % (blit(nm), "; ".join(blit(a) for a in al)))
            term = "KEnum [%s] %s" % ("; ".join(vs), "true" if other else "false")
            self.done[key] = (cname, None)
            self.defs.append((cname, "kind", term, "enum %s (%s)" % (name, df)))
            return self.done[key]
        if self.in_workaround(hit):
            cname2, info = self.workaround_struct(hit, name)
            self.done[key] = ("KIStruct %s" % cname2, info)
            return self.done[key]
        # text-keyed derive struct
        rows, info = [], []
        for sa, rawattrs, ident, fty in parse_fields(body, name):
            where = "%s::%s" % (name, ident)
            for k in sa:
                if k not in ("rename", "default", "skip_serializing_if", "deserialize_with", "with"):
                    fail("field attribute serde(%s) on %s is not modelled" % (k, where))
            key_s = sa.get("rename") or rename_field(ident, ra)
            skip = self.skip_flag(sa, fty, where)
            kind, is_opt = self.kind_of(fty, df, sa, where)
            if "default" in sa:
                if sa["default"] is True:
                    d = self.default_of_type(fty, df, where)
                else:
                    d = self.default_fn(sa["default"], df)
                dterm = "DNone" if d is None else "DVal (%s)" % d
            elif fty.startswith("Option<") and "deserialize_with" not in sa and "with" not in sa:
                dterm = "DNone"          # serde derive: a missing Option field is None
            else:
                dterm = "DRequired"
            rows.append('(mkF 0 %s "%s" (%s) %s, %s)' % (blit(key_s), ident, dterm, "true" if skip else "false", kind))
            info.append((ident, coq_text(key_s), skip))
            self.n_fields += 1
        self.done[key] = (cname, info)
        self.defs.append((cname, "kind", "KTStruct [\n    %s]" % ";\n    ".join(rows), "struct %s (%s)" % (name, df)))
        return self.done[key]

    def skip_flag(self, sa, fty, where):
        if "skip_serializing_if" not in sa:
            return False
        if sa["skip_serializing_if"].replace(" ", "") != "Option::is_none" or not fty.startswith("Option<"):
            fail("skip_serializing_if = %s on %s: only Option::is_none on an Option is modelled" % (sa["skip_serializing_if"], where))
        return True

    # ---- serde_workaround! ----------------------------------------------------------------
    def workaround_spans(self, f):
        s = self.src.files[f]
        spans = []
        for m in re.finditer(r"\bserde_workaround!\s*\{", s):
            j = balanced(s, m.end() - 1, "{", "}")
            spans.append((m.end(), j - 1))
        return spans

    def in_workaround(self, hit):
        f, _, off = hit
        return any(a <= off < b for a, b in self.workaround_spans(f))

    def workaround_struct(self, hit, name):
        df = hit[0]
        key = ("W", df, hit[2])
        if key in self.done:
            return self.done[key]
        body, _ = self.item_body(hit)
        sname = "S_%s_%s" % (re.sub(r"\W", "_", df[:-3]), name)
        rows, info, seen = [], [], set()
        for sa, rawattrs, ident, fty in parse_fields(body, name):
            where = "%s::%s" % (name, ident)
            # the macro pattern: rename = <literal> [, default] [, skip_serializing_if = path] [, deserialize_with = path]
            order = [k for k in sa]
            if not order or order[0] != "rename":
                fail("%s: #[serde(rename = <int>, ...)] expected by the macro" % where)
            allowed = ["rename", "default", "skip_serializing_if", "deserialize_with"]
            if any(k not in allowed for k in order) or order != [k for k in allowed if k in order]:
                fail("%s: attribute list %s does not match the macro pattern" % (where, order))
            if len([a for a in rawattrs if a.startswith("serde")]) != 1:
                fail("%s: exactly one #[serde(..)] attribute expected by the macro" % where)
            try:
                disc = int(str(sa["rename"]), 0)
            except ValueError:
                fail("%s: discriminant %r is not an integer literal" % (where, sa["rename"]))
            if not 0 <= disc <= 255:
                fail("%s: discriminant %d does not fit the macro's #[repr(u8)] enum" % (where, disc))
            if sa.get("default", True) is not True:
                fail("%s: `default` takes no value in the macro" % where)
            skip = self.skip_flag(sa, fty, where)
            kind, is_opt = self.kind_of(fty, df, sa, where)
            if "default" in sa:
                d = self.default_of_type(fty, df, where)
                dterm = "DNone" if d is None else "DVal (%s)" % d
            else:
                dterm = "DRequired"
            rows.append('(mkF %d %s "%s" (%s) %s, %s)' % (disc, blit(camel_of_snake(ident)), ident, dterm,
                                                           "true" if skip else "false", kind))
            info.append((ident, "CInt %d" % disc, skip))
            self.n_fields += 1
        if not rows:
            fail("serde_workaround! struct %s has no fields" % name)
        self.defs.append((sname, "list (fattr * kind)", "[\n    %s]" % ";\n    ".join(rows), "serde_workaround! struct %s (%s)" % (name, df)))
        self.done[key] = (sname, info)
        return self.done[key]


MESSAGES = [
    # (Coq name, file, struct)
    ("MC_REQUEST", "ctap2/make_credential.rs", "Request"),
    ("MC_RESPONSE", "ctap2/make_credential.rs", "Response"),
    ("GA_REQUEST", "ctap2/get_assertion.rs", "Request"),
    ("GA_RESPONSE", "ctap2/get_assertion.rs", "Response"),
    ("GI_RESPONSE", "ctap2/get_info.rs", "Response"),
    ("HMAC_INPUT", "ctap2/extensions/hmac_secret.rs", "HmacGetSecretInput"),
]


def gen(root):
    src = Src(root)
    g = Gen(src)
    # every macro invocation in the crate must be one of the messages we know about
    found = []
    for f in src.files:
        if f == "utils/serde_workaround.rs":
            continue
        for a, b in g.workaround_spans(f):
            m = re.search(r"\bpub\s+struct\s+(\w+)", src.files[f][a:b])
            if not m:
                fail("serde_workaround! invocation in %s without `pub struct`" % f)
            found.append((f, m.group(1)))
    want = [(f, n) for _, f, n in MESSAGES]
    if sorted(found) != sorted(want):
        fail("serde_workaround! structs in the crate are %s, expected %s" % (sorted(found), sorted(want)))
    msgs = []
    for cname, f, n in MESSAGES:
        hits = [h for h in src.find_item(n, [f]) if g.in_workaround(h)]
        if len(hits) != 1:
            fail("cannot locate %s in %s" % (n, f))
        sname, _ = g.workaround_struct(hits[0], n)
        msgs.append((cname, sname))
    # the macro itself: the parts of it the model relies on (fail loudly if it is rewritten)
    mac = src.files.get("utils/serde_workaround.rs")
    if mac is None:
        fail("utils/serde_workaround.rs not found")
    need = [
        (r'#\[strum\(serialize_all = "camelCase"\)\]', "camelCase text keys"),
        (r"#\[repr\(u8\)\]\s*enum Ident", "u8 discriminants"),
        (r"serializer\.serialize_u8\(\*self as u8\)", "keys serialised as u8"),
        (r"serialize_map\(serializer, Some\(struct_len\(&self\)\)\)", "definite-length map of the present fields"),
        (r"Ok\(Ident::from_repr\(value\)\.unwrap_or\(Ident::Unknown\)\)", "unknown u8 keys ignored"),
        (r"Ok\(Ident::try_from\(value\)\.unwrap_or\(Ident::Unknown\)\)", "unknown text keys ignored"),
        (r"let repr: u8 = value\.try_into\(\)\.map_err", "keys above 255 rejected"),
        (r"Ident::Unknown => \{\s*let _ = map\.next_value::<serde::de::IgnoredAny>\(\)\?;", "unknown entries skipped"),
        (r"if val\.is_some\(\) \{\s*return Err\(E::duplicate_field", "duplicate detection"),
        (r"\$field\.unwrap_or_default\(\)", "default"),
        (r"missing_field\(Ident::\$field\.into\(\)\)", "missing field error"),
        (r"if !\$skip_if\(&\$self\.\$field\) \{", "skip_serializing_if"),
        (r"serde::Deserializer::deserialize_map\(deserializer, Visitor\)", "deserialize_map"),
        (r"serde::Deserializer::deserialize_any\(deserializer, FieldVisitor\)", "key via deserialize_any"),
    ]
    for pat, what in need:
        if not re.search(pat, mac):
            fail("serde_workaround.rs: expected code for '%s' not found (macro rewritten?)" % what)
    for bad, what in ((r"fn visit_i64", "signed keys"), (r"fn visit_i8\b", "signed keys"), (r"fn visit_seq", "sequence form")):
        if re.search(bad, mac.split("struct Visitor;")[0].split("struct FieldVisitor;")[1]):
            fail("serde_workaround.rs: the key visitor now handles %s; model it first" % what)
    # Bytes must not be built with the base64-string feature in the model
    out = ["(* GENERATED by translators/ctap_schema.py from passkey-types/src - do not edit *)",
           "From Coq Require Import String.",
           "From PK Require Import Lib.Cbor Wire.Serde.",
           "Open Scope N_scope.", ""]
    for cname, cty, term, comment in g.defs:
        out.append("(* %s *)" % comment)
        out.append("Definition %s : %s := %s." % (cname, cty, term))
        out.append("")
    for cname, sname in msgs:
        out.append("Definition %s : list (fattr * kind) := %s." % (cname, sname))
    out.append("")
    out.append("Definition ALL_MESSAGES : list (string * list (fattr * kind)) := [%s]." % "; ".join(
        '("%s"%%string, %s)' % (c, c) for c, _ in msgs))
    out.append("Definition N_SCHEMA_FIELDS : N := %d." % g.n_fields)
    return "\n".join(out) + "\n"


if __name__ == "__main__":
    root, dst = sys.argv[1], sys.argv[2]
    text = gen(root)
    try:
        old = open(dst).read()
    except FileNotFoundError:
        old = None
    if old != text:
        open(dst, "w").write(text)
