#!/usr/bin/env python3
"""Translator: passkey-types/src/webauthn.rs + webauthn/**  ->  coq/theories/Wire/gen/JsonSchema.v

For every `#[derive(.. Serialize/Deserialize ..)]` struct of the WebAuthn JSON layer the ordered
field list with the serde attributes the derive expansion acts on -- JSON name (rename /
rename_all), alias, default, skip_serializing_if, flatten, deserialize_with / serialize_with /
with -- and a *kind* for the field type; for every string enum the variant <-> string table
(rename / rename_all / alias), the `#[default]` variant and whether a `#[serde(other)]` variant
exists.  Container attributes (`deny_unknown_fields`, `rename_all`) are read too.

Anything not recognised is a hard error (SystemExit): a silently wrong schema would make the
theorems of Wire/JsonFacts.v talk about something else than the code.

Used twice: as a script (writes the .v file, write-if-changed) and as a module by driver/c14.py
(`load(repo_src_dir)` returns the parsed schema as Python data)."""
import glob, os, re, sys

FILES = ["webauthn.rs", "webauthn/attestation.rs", "webauthn/assertion.rs", "webauthn/common.rs",
         "webauthn/extensions/mod.rs", "webauthn/extensions/credential_properties.rs",
         "webauthn/extensions/pseudo_random_function.rs"]

# the structs / enums the C14 model is about; every one of them must be found
REQUIRED_STRUCTS = [
    "PublicKeyCredentialCreationOptions", "PublicKeyCredentialRequestOptions",
    "CredentialCreationOptions", "CredentialRequestOptions",
    "PublicKeyCredentialRpEntity", "PublicKeyCredentialUserEntity", "PublicKeyCredentialParameters",
    "PublicKeyCredentialDescriptor", "AuthenticatorSelectionCriteria",
    "AuthenticationExtensionsClientInputs", "AuthenticationExtensionsClientOutputs",
    "AuthenticationExtensionsPrfInputs", "AuthenticationExtensionsPrfValues",
    "AuthenticationExtensionsPrfOutputs", "CredentialPropertiesOutput",
    "PublicKeyCredential", "AuthenticatorAttestationResponse", "AuthenticatorAssertionResponse",
    "CollectedClientData",
]
REQUIRED_ENUMS = [
    "AuthenticatorTransport", "UserVerificationRequirement", "ResidentKeyRequirement",
    "AttestationConveyancePreference", "AttestationStatementFormatIdentifiers",
    "PublicKeyCredentialType", "AuthenticatorAttachment", "PublicKeyCredentialHints", "ClientDataType",
]
REQUIRED_ALIASES = {"CreatedPublicKeyCredential": ("PublicKeyCredential", "AuthenticatorAttestationResponse"),
                    "AuthenticatedPublicKeyCredential": ("PublicKeyCredential", "AuthenticatorAssertionResponse")}

DE_WITH = {"ignore_unknown": "DwIgnoreUnknown", "ignore_unknown_vec": "DwIgnoreUnknownVec",
           "ignore_unknown_opt_vec": "DwIgnoreUnknownOptVec", "maybe_stringified": "DwMaybeStringified",
           "i64_to_iana": "DwI64ToIana"}
SER_WITH = {"i64_to_iana": "SwI64ToIana", "truthiness": "SwTruthiness"}


def fail(msg):
    raise SystemExit("json_schema translator: " + msg)


# ------------------------------------------------------------------------------------------
# lexical helpers

def strip_comments(s):
    s = re.sub(r"/\*.*?\*/", "", s, flags=re.S)
    out = []
    for line in s.split("\n"):
        i = line.find("//")
        while i >= 0:
            if line[:i].count('"') % 2 == 0:
                line = line[:i]
                break
            i = line.find("//", i + 2)
        out.append(line)
    return "\n".join(out)


def balanced(s, i, open_c, close_c):
    if s[i] != open_c:
        fail("expected %r at offset %d" % (open_c, i))
    depth, j = 0, i
    while j < len(s):
        c = s[j]
        if c == '"':
            j += 1
            while s[j] != '"':
                j += 2 if s[j] == "\\" else 1
        elif c == open_c:
            depth += 1
        elif c == close_c:
            depth -= 1
            if depth == 0:
                return j + 1
        j += 1
    fail("unbalanced %s%s" % (open_c, close_c))


def strip_test_modules(s):
    while True:
        m = re.search(r"#\[cfg\(test\)\]\s*(?:pub\s+)?mod\s+\w+\s*\{", s)
        if not m:
            return s
        j = balanced(s, m.end() - 1, "{", "}")
        s = s[:m.start()] + s[j:]


def split_top(s, sep=","):
    parts, depth, cur, j = [], 0, [], 0
    while j < len(s):
        c = s[j]
        if c == '"':
            k = j + 1
            while s[k] != '"':
                k += 2 if s[k] == "\\" else 1
            cur.append(s[j:k + 1]); j = k + 1
            continue
        if c in "(<[{":
            depth += 1
        elif c in ")>]}":
            depth -= 1
        if c == sep and depth == 0:
            parts.append("".join(cur)); cur = []
        else:
            cur.append(c)
        j += 1
    if "".join(cur).strip():
        parts.append("".join(cur))
    return [p.strip() for p in parts]


def take_attrs(s, i):
    attrs = []
    while True:
        while i < len(s) and s[i].isspace():
            i += 1
        if s.startswith("#[", i):
            j = balanced(s, i + 1, "[", "]")
            attrs.append(s[i + 2:j - 1].strip())
            i = j
        else:
            return attrs, i


KNOWN_FIELD_ARGS = {"rename", "default", "skip_serializing_if", "deserialize_with", "serialize_with", "with",
                    "alias", "flatten"}
KNOWN_CONTAINER_ARGS = {"rename_all", "deny_unknown_fields"}
KNOWN_VARIANT_ARGS = {"rename", "alias", "other"}


def serde_args(attrs, allowed, where):
    """serde(...) attribute arguments -> dict; `alias` may repeat (-> list)"""
    d = {}
    for a in attrs:
        m = re.fullmatch(r"serde\s*\((.*)\)", a, re.S)
        if not m:
            continue
        for part in split_top(m.group(1)):
            if not part:
                continue
            m2 = re.fullmatch(r"(\w+)\s*(?:=\s*(.+))?", part, re.S)
            if not m2:
                fail("cannot parse serde attribute argument %r in %s" % (part, where))
            k, v = m2.group(1), m2.group(2)
            if k not in allowed:
                fail("serde attribute %r in %s is not modelled" % (k, where))
            if v is not None:
                v = v.strip()
                if not (v.startswith('"') and v.endswith('"')):
                    fail("serde attribute %s = %s in %s: expected a string literal" % (k, v, where))
                v = v[1:-1]
            if k == "alias":
                d.setdefault("alias", []).append(v)
            elif k in d:
                fail("repeated serde attribute %s in %s" % (k, where))
            else:
                d[k] = True if v is None else v
    return d


def derives(attrs):
    out = set()
    for a in attrs:
        m = re.fullmatch(r"derive\s*\((.*)\)", a, re.S)
        if m:
            out.update(x.strip().split("::")[-1] for x in m.group(1).split(","))
    return out


def camel_of_snake(ident):
    if not re.fullmatch(r"[a-z0-9]+(_[a-z0-9]+)*", ident):
        fail("field identifier %r is not plain lower snake_case (camelCase conversion not modelled)" % ident)
    w = ident.split("_")
    return w[0] + "".join(x.capitalize() for x in w[1:])


def rename_field(ident, rule):
    if rule is None:
        return ident
    if rule == "camelCase":
        return camel_of_snake(ident)
    fail("rename_all = %r on a struct is not modelled" % rule)


def rename_variant(ident, rule):
    if rule is None:
        return ident
    if not re.fullmatch(r"([A-Z][a-z0-9]*)+", ident):
        fail("variant identifier %r is not PascalCase (rename_all conversion not modelled)" % ident)
    w = re.findall(r"[A-Z][a-z0-9]*", ident)
    if rule == "lowercase":
        return "".join(w).lower()
    if rule == "kebab-case":
        return "-".join(x.lower() for x in w)
    if rule == "snake_case":
        return "_".join(x.lower() for x in w)
    if rule == "camelCase":
        return w[0].lower() + "".join(w[1:])
    fail("rename_all = %r on an enum is not modelled" % rule)


# ------------------------------------------------------------------------------------------
# parsing

def parse_type(t, generics, where):
    """Rust type text -> kind tree: ('bytes',) ('str',) ('bool',) ('i64',) ('u32',) ('alg',) ('json',) ('unit',)
    ('opt',k) ('vec',k) ('hashmap',k) ('indexmap',k) ('ref',Name) ('ref',Name,[args]) ('param',X)"""
    t = t.strip()
    m = re.fullmatch(r"(\w+(?:::\w+)*)\s*(?:<(.*)>)?", t, re.S)
    if t == "()":
        return ("unit",)
    if not m:
        fail("cannot parse the type %r in %s" % (t, where))
    head, args = m.group(1), m.group(2)
    name = head.split("::")[-1]
    args = split_top(args) if args else []
    if name in generics and not args:
        return ("param", name)
    simple = {"Bytes": ("bytes",), "String": ("str",), "bool": ("bool",), "i64": ("i64",), "u32": ("u32",)}
    if name in simple and not args:
        return simple[name]
    if head in ("iana::Algorithm", "coset::iana::Algorithm") and not args:
        return ("alg",)
    if head in ("serde_json::value::Value", "serde_json::Value") and not args:
        return ("json",)
    if name == "Option" and len(args) == 1:
        return ("opt", parse_type(args[0], generics, where))
    if name == "Vec" and len(args) == 1:
        return ("vec", parse_type(args[0], generics, where))
    if name in ("HashMap", "IndexMap") and len(args) == 2:
        if args[0].strip() != "String":
            fail("%s with a key type other than String in %s" % (name, where))
        return ("hashmap" if name == "HashMap" else "indexmap", parse_type(args[1], generics, where))
    if "::" in head:
        fail("path type %r in %s is not modelled" % (t, where))
    if args:
        return ("ref", name, [parse_type(a, generics, where) for a in args])
    return ("ref", name)


def parse_struct_fields(body, where, generics):
    fields, i = [], 0
    while True:
        attrs, i = take_attrs(body, i)
        rest = body[i:]
        if not rest.strip():
            if attrs:
                fail("dangling attributes in " + where)
            return fields
        m = re.match(r"\s*(?:pub(?:\([^)]*\))?\s+)?(\w+)\s*:\s*", rest)
        if not m:
            fail("cannot parse a field of %s near %r" % (where, rest[:60]))
        ident = m.group(1)
        j = i + m.end()
        depth, k = 0, j
        while k < len(body):
            c = body[k]
            if c in "(<[{":
                depth += 1
            elif c in ")>]}":
                depth -= 1
            elif c == "," and depth == 0:
                break
            k += 1
        ty = re.sub(r"\s+", " ", body[j:k].strip())
        fields.append((attrs, ident, ty))
        i = k + 1


def load(src_root):
    """-> {"structs": {name: {...}}, "enums": {name: {...}}, "aliases": {...}, "order": [names]}"""
    texts = {}
    for f in FILES:
        p = os.path.join(src_root, f)
        if not os.path.exists(p):
            fail("source file %s is missing" % f)
        texts[f] = strip_test_modules(strip_comments(open(p).read()))
    structs, enums, aliases, order = {}, {}, {}, []
    for f, s in texts.items():
        for m in re.finditer(r"\bpub\s+(struct|enum)\s+(\w+)\s*(<[^>{]*>)?\s*(where[^{]*)?\{", s):
            kind, name = m.group(1), m.group(2)
            # attributes in front of the item: scan backwards over `#[...]` blocks
            head = s[:m.start()]
            attrs = []
            while True:
                h = head.rstrip()
                if not h.endswith("]"):
                    break
                # find the matching "#[" of this attribute
                depth, k = 0, len(h) - 1
                while k >= 0:
                    if h[k] == "]": depth += 1
                    elif h[k] == "[":
                        depth -= 1
                        if depth == 0: break
                    k -= 1
                if k < 1 or h[k - 1] != "#":
                    break
                attrs.insert(0, h[k + 1:len(h) - 1].strip())
                head = h[:k - 1]
            dv = derives(attrs)
            if not ({"Serialize", "Deserialize"} & dv):
                continue
            if name in structs or name in enums:
                fail("%s is defined twice" % name)
            where = "%s %s (%s)" % (kind, name, f)
            body_end = balanced(s, m.end() - 1, "{", "}")
            body = s[m.end():body_end - 1]
            cargs = serde_args(attrs, KNOWN_CONTAINER_ARGS, where)
            generics = []
            if m.group(3):
                for g in split_top(m.group(3)[1:-1]):
                    gm = re.fullmatch(r"(\w+)\s*(?::[^=]*)?(?:=\s*(.+))?", g, re.S)
                    if not gm:
                        fail("cannot parse the generic parameter %r of %s" % (g, where))
                    generics.append(gm.group(1))
            if kind == "struct":
                fields = []
                for fattrs, ident, ty in parse_struct_fields(body, where, generics):
                    w = "%s.%s" % (where, ident)
                    a = serde_args(fattrs, KNOWN_FIELD_ARGS, w)
                    de_with = a.get("deserialize_with") or a.get("with")
                    ser_with = a.get("serialize_with") or a.get("with")
                    if de_with is not None:
                        de_with = de_with.split("::")[-1]
                        if de_with not in DE_WITH:
                            fail("deserialize_with = %r on %s is not modelled" % (de_with, w))
                    if ser_with is not None:
                        ser_with = ser_with.split("::")[-1]
                        if ser_with not in SER_WITH:
                            fail("serialize_with = %r on %s is not modelled" % (ser_with, w))
                    skip = a.get("skip_serializing_if")
                    if skip not in (None, "Option::is_none"):
                        fail("skip_serializing_if = %r on %s is not modelled" % (skip, w))
                    if a.get("default") not in (None, True):
                        fail("default = %r on %s is not modelled" % (a.get("default"), w))
                    kind_t = parse_type(ty, generics, w)
                    if skip and kind_t[0] != "opt":
                        fail("skip_serializing_if = Option::is_none on the non-Option field %s" % w)
                    fields.append({
                        "rust": ident, "json": a.get("rename") or rename_field(ident, cargs.get("rename_all")),
                        "aliases": a.get("alias", []), "default": bool(a.get("default")), "skip_none": bool(skip),
                        "flatten": bool(a.get("flatten")), "de_with": de_with, "ser_with": ser_with,
                        "type": ty, "kind": kind_t})
                if not fields:
                    fail("%s has no named fields" % where)
                structs[name] = {"file": f, "generics": generics, "deny": bool(cargs.get("deny_unknown_fields")),
                                 "rename_all": cargs.get("rename_all"), "fields": fields,
                                 "derives_default": "Default" in dv,
                                 "ser": "Serialize" in dv, "de": "Deserialize" in dv}
            else:
                if cargs.get("deny_unknown_fields"):
                    fail("deny_unknown_fields on %s" % where)
                variants, default, other, i = [], None, None, 0
                while True:
                    vattrs, i = take_attrs(body, i)
                    rest = body[i:]
                    if not rest.strip():
                        if vattrs:
                            fail("dangling attributes in " + where)
                        break
                    vm = re.match(r"\s*(\w+)\s*(,|$)", rest)
                    if not vm:
                        fail("%s: only unit variants are modelled, near %r" % (where, rest[:50]))
                    ident = vm.group(1)
                    a = serde_args(vattrs, KNOWN_VARIANT_ARGS, "%s::%s" % (where, ident))
                    if "default" in vattrs:
                        if default is not None:
                            fail("two #[default] variants in " + where)
                        default = len(variants)
                    if a.get("other"):
                        other = len(variants)
                    variants.append({"rust": ident, "json": a.get("rename") or rename_variant(ident, cargs.get("rename_all")),
                                     "aliases": a.get("alias", [])})
                    i += vm.end()
                if not variants:
                    fail("%s has no variants" % where)
                if default is None and "Default" in dv:
                    fail("%s derives Default without a #[default] variant" % where)
                enums[name] = {"file": f, "variants": variants, "default": default, "other": other,
                               "rename_all": cargs.get("rename_all")}
            order.append(name)
        for m in re.finditer(r"\bpub\s+type\s+(\w+)\s*=\s*(\w+)\s*<\s*(\w+)\s*>\s*;", s):
            aliases[m.group(1)] = (m.group(2), m.group(3))
    for n in REQUIRED_STRUCTS:
        if n not in structs:
            fail("struct %s not found (or it no longer derives Serialize/Deserialize)" % n)
    for n in REQUIRED_ENUMS:
        if n not in enums:
            fail("enum %s not found (or it no longer derives Serialize/Deserialize)" % n)
    for n, v in REQUIRED_ALIASES.items():
        if aliases.get(n) != v:
            fail("type alias %s = %s<%s> not found" % (n, v[0], v[1]))
    # every referenced type must be known; a `default` field needs a default value
    def check_kind(k, where, generics):
        if k[0] in ("opt", "vec", "hashmap", "indexmap"):
            check_kind(k[1], where, generics)
        elif k[0] == "ref":
            if k[1] not in structs and k[1] not in enums:
                fail("type %s used in %s is not a struct/enum of the WebAuthn JSON layer" % (k[1], where))
            want = len(structs[k[1]]["generics"]) if k[1] in structs else 0
            if len(k[2] if len(k) > 2 else []) != want:
                fail("wrong number of type arguments for %s in %s" % (k[1], where))
            for a in (k[2] if len(k) > 2 else []):
                check_kind(a, where, generics)
    def has_default(k):
        if k[0] in ("opt", "vec", "hashmap", "indexmap", "bool", "str", "bytes", "i64", "u32", "unit"):
            return True
        if k[0] == "ref":
            return (k[1] in enums and enums[k[1]]["default"] is not None) or \
                   (k[1] in structs and structs[k[1]]["derives_default"])
        return False
    for n, s in structs.items():
        for fld in s["fields"]:
            w = "%s.%s" % (n, fld["rust"])
            check_kind(fld["kind"], w, s["generics"])
            if fld["default"] and not has_default(fld["kind"]):
                fail("#[serde(default)] on %s whose type has no Default known to the translator" % w)
            if fld["de_with"] == "ignore_unknown" and not has_default(fld["kind"]):
                fail("ignore_unknown on %s whose type has no Default known to the translator" % w)
            if fld["flatten"] and (fld["de_with"] or fld["ser_with"] or fld["default"] or fld["skip_none"] or fld["aliases"]):
                fail("flatten combined with other attributes on %s is not modelled" % w)
    return {"structs": structs, "enums": enums, "aliases": aliases, "order": order}


# ------------------------------------------------------------------------------------------
# Coq output

def blit(s):
    return "[" + ";".join(str(b) for b in s.encode()) + "]"


def coq_kind(k):
    t = k[0]
    if t in ("bytes", "str", "bool", "i64", "u32", "alg", "json", "unit"):
        return {"bytes": "TBytes", "str": "TStr", "bool": "TBool", "i64": "TI64", "u32": "TU32", "alg": "TAlg",
                "json": "TJson", "unit": "TUnit"}[t]
    if t == "opt": return "(TOpt %s)" % coq_kind(k[1])
    if t == "vec": return "(TVec %s)" % coq_kind(k[1])
    if t == "hashmap": return "(THashMap %s)" % coq_kind(k[1])
    if t == "indexmap": return "(TIndexMap %s)" % coq_kind(k[1])
    if t == "param": return "p_" + k[1]
    if t == "ref":
        args = k[2] if len(k) > 2 else []
        return ("(s_%s %s)" % (k[1], " ".join(coq_kind(a) for a in args))) if args else "r_" + k[1]
    fail("kind %r" % (k,))


def string_names(sc):
    """every string of the schema -> Coq identifier of its byte-list definition (case files refer to these)"""
    strs = []
    for n in sc["order"]:
        if n in sc["enums"]:
            for v in sc["enums"][n]["variants"]:
                strs += [v["json"]] + v["aliases"]
        else:
            for f in sc["structs"][n]["fields"]:
                if not f["flatten"]:
                    strs += [f["json"]] + f["aliases"]
    names, used = {}, set()
    for x in strs:
        if x in names:
            continue
        base = "str_" + re.sub(r"[^A-Za-z0-9]", "_", x)
        nm, k = base, 1
        while nm in used:
            k += 1; nm = "%s_%d" % (base, k)
        used.add(nm); names[x] = nm
    return names


def gen(src_root):
    sc = load(src_root)
    structs, enums = sc["structs"], sc["enums"]
    out = ["(* GENERATED by translators/json_schema.py from passkey-types/src/webauthn.rs and webauthn/** - do not edit *)",
           "From PK Require Import Wire.Json.", "Open Scope N_scope.", ""]
    for x, nm in string_names(sc).items():
        out.append("Definition %s : bytes := %s. (* %s *)" % (nm, blit(x), x))
    out.append("")
    for n in sc["order"]:
        if n not in enums:
            continue
        e = enums[n]
        out.append("(* enum %s (%s), rename_all = %s *)" % (n, e["file"], e["rename_all"]))
        vs = ";\n     ".join("(%s, [%s]) (* %s = %s%s *)" % (blit(v["json"]), "; ".join(blit(a) for a in v["aliases"]), v["rust"],
                                                              v["json"], "".join(" | " + a for a in v["aliases"]))
                             for v in e["variants"])
        out.append("Definition e_%s : enum_schema :=\n  {| e_variants :=\n    [%s];\n     e_default := %s; e_other := %s |}." % (
            n, vs, "Some %d" % e["default"] if e["default"] is not None else "None",
            "Some %d" % e["other"] if e["other"] is not None else "None"))
        out.append("Definition r_%s : ty := TEnum e_%s." % (n, n))
        out.append("")
    # structs in dependency order
    done, emitting = set(), []
    def deps(k):
        if k[0] in ("opt", "vec", "hashmap", "indexmap"):
            return deps(k[1])
        if k[0] == "ref":
            d = [k[1]] if k[1] in structs else []
            for a in (k[2] if len(k) > 2 else []):
                d += deps(a)
            return d
        return []
    def emit(n):
        if n in done:
            return
        if n in emitting:
            fail("recursive struct %s is not modelled" % n)
        emitting.append(n)
        s = structs[n]
        for fld in s["fields"]:
            for d in deps(fld["kind"]):
                emit(d)
        emitting.pop(); done.add(n)
        params = "".join(" (p_%s : ty)" % g for g in s["generics"])
        out.append("(* struct %s (%s), rename_all = %s, deny_unknown_fields = %s *)" % (n, s["file"], s["rename_all"], s["deny"]))
        fl = []
        for fld in s["fields"]:
            fl.append("Field %s [%s] %s %s %s %s %s %s\n       (* %s -> \"%s\" : %s *)" % (
                blit(fld["json"]), "; ".join(blit(a) for a in fld["aliases"]),
                "true" if fld["default"] else "false", "true" if fld["skip_none"] else "false",
                "true" if fld["flatten"] else "false",
                DE_WITH[fld["de_with"]] if fld["de_with"] else "DwNone",
                SER_WITH[fld["ser_with"]] if fld["ser_with"] else "SwNone",
                coq_kind(fld["kind"]), fld["rust"], fld["json"], fld["type"]))
        name = ("s_%s" if s["generics"] else "r_%s") % n
        out.append("Definition %s%s : ty :=\n  TStruct %s\n    [%s]." % (name, params, "true" if s["deny"] else "false", ";\n     ".join(fl)))
        out.append("Definition n_%s : N := %d." % (n, len(s["fields"])))
        out.append("")
    for n in sc["order"]:
        if n in structs:
            emit(n)
    for a, (g, arg) in sorted(sc["aliases"].items()):
        if g in structs and arg in structs:
            out.append("Definition r_%s : ty := s_%s r_%s." % (a, g, arg))
    out.append("")
    closed = [n for n in sc["order"] if n in structs and not structs[n]["generics"]]
    out.append("(* all closed struct schemas, for checks that quantify over the generated data *)")
    out.append("Definition all_structs : list ty :=\n  [%s]." % "; ".join(
        ["r_" + n for n in closed] + ["r_" + a for a in sorted(sc["aliases"]) if sc["aliases"][a][0] in structs]))
    out.append("Definition all_enums : list enum_schema :=\n  [%s]." % "; ".join("e_" + n for n in sc["order"] if n in enums))
    out.append("Definition N_STRUCTS : N := %d.  Definition N_ENUMS : N := %d.  Definition N_FIELDS : N := %d." % (
        len(structs), len(enums), sum(len(s["fields"]) for s in structs.values())))
    return "\n".join(out) + "\n"


if __name__ == "__main__":
    src, dst = sys.argv[1], sys.argv[2]
    text = gen(src)
    try:
        old = open(dst).read()
    except FileNotFoundError:
        old = None
    if old != text:
        os.makedirs(os.path.dirname(dst), exist_ok=True)
        open(dst, "w").write(text)
